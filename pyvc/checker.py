"""./check entry point: decide one property by discharging every obligation of the functions it
depends on, generated from /repo's current source."""
from __future__ import annotations

import argparse
import hashlib
import json
import multiprocessing as mp
import os
import re
import sys
import time
import traceback

HERE = os.path.dirname(os.path.dirname(os.path.abspath(__file__)))

_WORLD = None


def world():
    global _WORLD
    if _WORLD is None:
        from stubs.world import build_world
        _WORLD = build_world()
    return _WORLD


def _support_filter(skip_prop, labels, only_posts):
    """which obligations of a function that a verified caller summarised by contract carry the caller's proof: everything the
    caller assumed (the clauses it really used, the frame, the absence of undeclared exceptions, the effect set) and what those
    rest on (the function's own callee preconditions and loop obligations); not: clauses no caller used, termination variants"""
    def f(ob):
        if skip_prop and skip_prop in ob.props:
            return False            # already counted as an obligation of the property itself
        if ob.kind == "variant":
            return False
        if ob.kind == "post":
            label = ob.name.split("::post::", 1)[1]
            return labels is None or label in labels
        return not only_posts
    return f


def _worker(job):
    fq, known, pid, part = job[:4]
    support = job[4] if len(job) > 4 else None
    try:
        from pyvc.driver import verify_function
        w = world()
        c = w.contracts[fq]
        if support is None:
            rep = verify_function(w, c, known=known, only_prop=pid, part=part)
        else:
            rep = verify_function(w, c, known=known, only_prop=None, part=part,
                                  ob_filter=_support_filter(support["skip"], support["labels"], support["only_posts"]))
            for ob in rep["obligations"]:
                ob["supporting"] = True
                if support["pid"] not in ob["props"]:
                    ob["props"].append(support["pid"])
        rep["status"] = "ok"
        return rep
    except Exception as e:  # checker failure, never a violation
        return {"function": fq, "status": "checker-error", "error": f"{type(e).__name__}: {e}",
                "traceback": traceback.format_exc()[-3000:]}


def merge_parts(parts):
    """reports of the slices of one function -> one report"""
    out, by_fn = [], {}
    for r in parts:
        if r["status"] != "ok":
            out.append(r)
            continue
        m = by_fn.get(r["function"])
        if m is None:
            by_fn[r["function"]] = r
            out.append(r)
            continue
        obs = {o["name"]: o for o in m["obligations"]}
        for o in r["obligations"]:
            t = obs.get(o["name"])
            if t is None:
                m["obligations"].append(o)
                continue
            t["instances"] += o["instances"]
            t["discharged"] += o["discharged"]
            t["failed"] += o["failed"]
            for b, k in o["backends"].items():
                t["backends"][b] = t["backends"].get(b, 0) + k
        m["n_obligation_instances"] += r["n_obligation_instances"]
        m["solver_time_s"] = round(m["solver_time_s"] + r["solver_time_s"], 3)
        m["wall_s"] = max(m["wall_s"], r["wall_s"])
        for b, v in r["backends"].items():
            e = m["backends"].setdefault(b, {"count": 0, "time_s": 0.0})
            e["count"] += v["count"]
            e["time_s"] = round(e["time_s"] + v["time_s"], 3)
    # a slice that failed makes the whole function a checker error
    bad = {r["function"] for r in out if r["status"] != "ok"}
    return [r for r in out if r["status"] != "ok" or r["function"] not in bad]


def load_known():
    p = os.path.join(HERE, "known_findings.json")
    if not os.path.exists(p):
        return []
    with open(p) as fh:
        return json.load(fh).get("findings", [])


def sanitize(name):
    return re.sub(r"[^A-Za-z0-9_.@-]+", "_", name)[:150]


def run_property(pid, tier, seed):
    from contracts.properties import PROPERTIES
    t0 = time.time()
    spec = PROPERTIES[pid]
    w = world()
    known_all = load_known()
    # an open finding is matched by obligation + input class whichever property's check meets the obligation
    known = [k for k in known_all if k.get("status", "open") == "open"]
    fqs = list(spec.get("functions") or [])
    if not fqs:
        fqs = [k for k, c in w.contracts.items() if pid in c.all_props() and not c.trusted]
    missing = [fq for fq in fqs if fq not in w.contracts]
    if missing:
        print(f"CHECKER-ERROR property={pid} no contract registered for {missing}")
        return 3
    # heaviest first so that the pool is well packed
    fqs.sort(key=lambda k: -w.contracts[k].cost_hint)
    jobs = []
    for fq in fqs:
        n = max(1, int(w.contracts[fq].cost_hint))
        jobs += [(fq, known, pid, (i, n) if n > 1 else None) for i in range(n)]
    nproc = min(len(jobs), int(os.environ.get("VERIF_JOBS", "16")))
    if not os.environ.get("VERIF_INPROC"):
        ctx = mp.get_context("fork")
        with ctx.Pool(nproc, maxtasksperchild=1) as pool:
            part_reports = pool.map(_worker, jobs, chunksize=1)
    else:
        part_reports = [_worker(j) for j in jobs]
    # ---- modular closure: every function that a verified function summarised by its contract must meet that contract, or the
    # caller's proof rests on nothing.  Such functions are verified too ("supporting"), for exactly what callers assumed.
    def run_jobs(js):
        if not js:
            return []
        if os.environ.get("VERIF_INPROC"):
            return [_worker(j) for j in js]
        with mp.get_context("fork").Pool(min(len(js), int(os.environ.get("VERIF_JOBS", "16"))), maxtasksperchild=1) as pool:
            return pool.map(_worker, js, chunksize=1)

    primary = set(fqs)
    supported = {}       # contract key -> set of clause labels already verified as supporting (None = all)
    new_reports = [r for r in part_reports if r["status"] == "ok"]
    seen_parts = set()
    support_keys = []
    for _round in range(8):
        want = {}        # key -> labels assumed by some caller (None = all)
        for r in new_reports:
            assumed = {}
            for skey, label in r.get("assumed", []):
                assumed.setdefault(skey, set()).add(label)
            for fq in r.get("by_contract", []):
                for k, c in w.contracts.items():
                    if k.split("#")[0] != fq or c.trusted:
                        continue
                    summary = w.call_contracts.get(fq)
                    if summary is not None and summary.key == k:
                        labels = assumed.get(k, set())
                    else:
                        labels = None    # summarised through a union summary: every clause of the component carries it
                    if k in want and want[k] is None:
                        continue
                    want[k] = None if labels is None else (want.get(k, set()) | labels)
        js = []
        for k, labels in want.items():
            first = k not in supported
            have = supported.get(k, set())
            if not first and (have is None or (labels is not None and labels <= have)):
                continue
            todo = None if labels is None else (labels - (have or set()))
            supported[k] = None if labels is None else ((have or set()) | labels)
            sup = {"pid": pid, "skip": pid if k in primary else None, "labels": todo, "only_posts": not first}
            n = max(1, int(w.contracts[k].cost_hint))
            js += [(k, known, pid, (i, n) if n > 1 else None, sup) for i in range(n)]
            if first:
                support_keys.append(k)
        if not js:
            break
        js.sort(key=lambda j: -w.contracts[j[0]].cost_hint)
        got = run_jobs(js)
        part_reports += got
        new_reports = [r for r in got if r["status"] == "ok"]
    reports = merge_parts(part_reports)
    errors = [r for r in reports if r["status"] != "ok"]
    # lemmas (SMT-only composition arguments over the contracts)
    lemma_reports = []
    for lem in spec.get("lemmas", []):
        try:
            lemma_reports.append(lem(w))
        except Exception as e:
            errors.append({"function": getattr(lem, "__name__", "lemma"), "error": f"{type(e).__name__}: {e}",
                           "traceback": traceback.format_exc()[-3000:]})
    # cross-check of the VC generator's Python semantics against CPython (pyvc/selftest): guards every run against an unsound
    # engine; a mismatch is a checker error, never a verdict about the repository
    selftest_res = None
    try:
        from pyvc.selftest.run import run as _selftest
        selftest_res = _selftest()
        for f in selftest_res["failures"][:5]:
            errors.append({"function": "pyvc selftest", "error": f"symbolic execution disagrees with CPython: {f}"})
    except Exception as e:
        errors.append({"function": "pyvc selftest", "error": f"{type(e).__name__}: {e}", "traceback": traceback.format_exc()[-2000:]})
    # bounded conformance tests of the assumed contracts this property rests on (never counted as proved)
    conf_results = []
    if spec.get("conformance"):
        from stubs import conformance
        try:
            conf_results = conformance.run(spec["conformance"], seed=seed, thorough=(tier == "thorough"),
                                           workdir=os.environ.get("PYVC_WORK"))
        except Exception as e:
            errors.append({"function": "stub conformance", "error": f"{type(e).__name__}: {e}", "traceback": traceback.format_exc()[-2000:]})
        for cr in conf_results:
            if cr["failures"]:
                errors.append({"function": "stub conformance", "error": f"assumed contract does not match the real library: {cr['what']}: {cr['failures'][:2]}"})
    spec = dict(spec)
    spec["bounded"] = list(spec.get("bounded", [])) + [
        {"what": cr["what"], "bound": cr["bound"], "cases": cr["cases"], "failures": len(cr["failures"]),
         "role": "conformance test of an ASSUMED contract (stub) against the real library/OS; not part of the proof"} for cr in conf_results]
    # thorough tier: additionally run the concrete scenario sweep on the real handlers (a BOUNDED exploration, never counted as
    # proved; a failing scenario is a violation with a replayable input)
    sweep_hit = None
    if tier == "thorough":
        try:
            from contracts import concrete_handlers as CH
            if pid in CH.ACCEPT:
                orc = CH.HandlerOracle("thorough-sweep")
                t1 = time.time()
                case = orc.search({}, 600, None, pid=pid)
                n_cases = getattr(orc, "searched", None)
                spec["bounded"].append({
                    "what": "concrete scenario sweep of the real SourceHandler/DestHandler pair (contracts/sim.py), monitors of " + pid,
                    "bound": CH.HandlerOracle.scope, "cases": n_cases if n_cases is not None else "stopped at the first failing scenario",
                    "failures": 0 if case is None else 1, "seconds": round(time.time() - t1, 1),
                    "role": "bounded exploration in addition to the discharged obligations; not part of the proof"})
                if case is not None:
                    ok, detail = orc.run(case)
                    if not ok:
                        sweep_hit = (case, detail)
        except Exception as e:  # the sweep is auxiliary: its own failure is a checker error, never a violation
            errors.append({"function": "scenario sweep", "error": f"{type(e).__name__}: {e}", "traceback": traceback.format_exc()[-2000:]})
    if selftest_res is not None:
        spec["bounded"].append({
            "what": "engine cross-check: symbolic execution of pyvc/selftest/snippets.py (short-circuit operands, optionals, tuples, dicts, "
                    "lists, loops, exceptions, min/max, //, %) against CPython",
            "bound": f"{selftest_res['functions']} snippets x 49 integer argument pairs", "cases": selftest_res["cases"],
            "failures": len(selftest_res["failures"]), "role": "self-test of the verifier; not part of the proof"})
    for e in errors:
        print(f"CHECKER-ERROR property={pid} function={e['function']} {e['error']}")
        if os.environ.get("VERIF_DEBUG"):
            print(e.get("traceback", ""))
    # which obligations count for this property
    relevant = []
    for r in reports:
        if r["status"] != "ok":
            continue
        for ob in r["obligations"]:
            if pid not in ob["props"]:
                continue
            relevant.append((r, ob))
    for lr in lemma_reports:
        for ob in lr["obligations"]:
            relevant.append((lr, ob))
    total = len(relevant)
    discharged = sum(1 for _, ob in relevant if ob["discharged"] == ob["instances"])
    violations, known_hits, support_known = [], [], []
    replay_base = os.environ.get("PYVC_REPLAY_DIR") or "replays"   # (dev runs on scratch copies write elsewhere)
    os.makedirs(os.path.join(HERE, replay_base, pid), exist_ok=True)
    for r, ob in relevant:
        if ob["discharged"] == ob["instances"]:
            continue
        fails = ob["failed"]
        if all(f.get("known") for f in fails):
            for kid in sorted({f["known"] for f in fails}):
                kprop = next((x.get("property") for x in known_all if x.get("id") == kid), None)
                if ob.get("supporting") and kprop != pid:
                    # an open finding of ANOTHER property met in a supporting function: not a violation of this property;
                    # the callee precondition it breaks is recorded as an assumption this property's proof leaves unchecked
                    support_known.append((kid, ob["name"]))
                else:
                    known_hits.append((kid, ob["name"]))
            continue
        violations.append((r, ob))
    # expected-count guard
    exp_path = os.path.join(HERE, "contracts", "expected_counts.json")
    expected = {}
    if os.path.exists(exp_path):
        with open(exp_path) as fh:
            expected = json.load(fh)
    exp = expected.get(pid)
    rc = 0
    if errors:
        rc = 3
    if exp is not None and total < exp["obligations"] and not errors:
        print(f"CHECKER-ERROR property={pid} obligation count dropped: {total} < expected {exp['obligations']}")
        rc = 3
    if total == 0:
        print(f"CHECKER-ERROR property={pid} zero obligations generated")
        rc = 3
    # vacuity: every function must have a feasible return/raise path
    for r in reports:
        if r["status"] == "ok" and not r.get("feasible_paths", 1):
            print(f"CHECKER-ERROR property={pid} function={r['function']} precondition admits no path (vacuous contract)")
            rc = 3
        if r["status"] == "ok" and r.get("needs_return_path") and not r.get("return_paths", 1):
            print(f"CHECKER-ERROR property={pid} function={r['function']} no normally returning path: postconditions hold "
                  f"vacuously (contradictory precondition or callee contracts; dead ends: {r.get('dead_ends')})")
            rc = 3
    printed = set()
    for kid, name in known_hits:
        k = next(x for x in known_all if x["id"] == kid)
        if kid not in printed:
            print(f"KNOWN-FINDING: property={pid} {kid} {k['what']}")
            printed.add(kid)
    replay_files = []
    from pyvc.replay import find_failing_input
    searched = {}
    for r, ob in violations:
        f0 = next(f for f in ob["failed"] if not f.get("known"))
        path = os.path.join(replay_base, pid, sanitize(ob["name"]) + ".json")
        # one search per oracle and property (the handler oracle is the same scenario enumeration for every handler function)
        okey = "handlers" if ".handler.source.SourceHandler." in r["function"] or ".handler.dest.DestHandler." in r["function"] \
            else r["function"]
        if okey not in searched:
            searched[okey] = find_failing_input(r["function"], ob["name"], f0.get("model"), pid=pid)
        f0["replay"] = searched[okey]
        rec = {
            "property": pid, "obligation": ob["name"], "kind": ob["kind"], "function": r["function"],
            "source": f"{r.get('file')}:{ob.get('line') or r.get('line')}",
            "verdict": f0["verdict"], "solver_output": f0.get("model"), "info": f0.get("info"),
            "path_decisions": f0.get("decisions"), "failed_instances": len(ob["failed"]), "instances": ob["instances"],
            "concrete_pre_state": f0.get("pre_state"), "replay": f0.get("replay"),
            "rerun": f"./check replay {path}",
        }
        with open(os.path.join(HERE, path), "w") as fh:
            json.dump(rec, fh, indent=1, default=str)
        replay_files.append(path)
        confirmed = bool(f0.get("replay") and f0["replay"].get("confirmed"))
        tail = "" if confirmed else " no-failing-input-found"
        print(f"VIOLATION property={pid} replay={path} obligation={ob['name']} verdict={f0['verdict']}{tail}")
        rc = 1   # a violation derived from a completely analysed function stands whatever else could not be analysed
    if sweep_hit is not None:
        name = f"scenario-sweep::{pid}"
        path = os.path.join(replay_base, pid, sanitize(name) + ".json")
        with open(os.path.join(HERE, path), "w") as fh:
            json.dump({"property": pid, "obligation": name, "kind": "bounded-sweep", "function": "cfdppy.handler (both handlers)",
                       "verdict": "failing scenario on the real handlers", "solver_output": None,
                       "replay": {"confirmed": True, "oracle": "cfdppy.handler.dest.DestHandler.state_machine", "case": sweep_hit[0],
                                  "observed": sweep_hit[1]}, "rerun": f"./check replay {path}"}, fh, indent=1, default=str)
        print(f"VIOLATION property={pid} replay={path} obligation={name} verdict=concrete-failing-input")
        violations.append(({"function": "scenario sweep"}, {"name": name}))
    if violations:
        rc = 1
    elif errors and any(e.get("function", "").startswith("cfdppy.") for e in errors):
        # a function under contract could not be analysed (typically: changed code left the supported subset).  That is
        # undecided, not a violation - unless the concrete oracle of that function finds a failing input on the real code.
        for e in errors:
            fn = e.get("function", "")
            if not fn.startswith("cfdppy."):
                continue
            okey = "handlers" if ".handler.source.SourceHandler." in fn or ".handler.dest.DestHandler." in fn else fn
            if okey not in searched:
                searched[okey] = find_failing_input(fn, fn + "::not-analysable", None, pid=pid)
            rp = searched[okey]
            if rp and rp.get("confirmed"):
                name = fn + "::not-analysable"
                path = os.path.join(replay_base, pid, sanitize(name) + ".json")
                with open(os.path.join(HERE, path), "w") as fh:
                    json.dump({"property": pid, "obligation": name, "kind": "not-analysable", "function": fn,
                               "verdict": "verifier could not analyse the function; failing input found by the concrete oracle",
                               "solver_output": e.get("error"), "replay": rp, "rerun": f"./check replay {path}"}, fh, indent=1, default=str)
                print(f"VIOLATION property={pid} replay={path} obligation={name} verdict=concrete-failing-input")
                violations.append(({"function": fn}, {"name": name}))
                rc = 1
                break
    if support_known:
        spec = dict(spec)
        spec["assumptions"] = list(spec.get("assumptions", [])) + [
            f"supporting obligation {name} holds except for the input class of open finding {kid} (a finding of another property); "
            f"this property's proof assumes the callee contract there" for kid, name in sorted(set(support_known))]
    write_evidence(pid, tier, seed, spec, reports, lemma_reports, relevant, total, discharged, violations, known_hits,
                   errors, time.time() - t0)
    status = {0: "PASS", 1: "VIOLATION", 3: "CHECKER-ERROR"}[rc]
    print(f"{status} property={pid} tier={tier} functions={len(fqs)} supporting={len(support_keys)} obligations={total} discharged={discharged} "
          f"known_findings={len(printed)} violations={len(violations)} wall={time.time() - t0:.1f}s")
    return rc


def write_evidence(pid, tier, seed, spec, reports, lemma_reports, relevant, total, discharged, violations, known_hits,
                   errors, wall):
    ok_reports = [r for r in reports if r["status"] == "ok"]
    backends = {}
    for r in ok_reports + lemma_reports:
        for b, v in r.get("backends", {}).items():
            e = backends.setdefault(b, {"count": 0, "time_s": 0.0})
            e["count"] += v["count"]
            e["time_s"] = round(e["time_s"] + v["time_s"], 3)
    samples = []
    for r, ob in relevant[:4]:
        samples.append({"obligation": ob["name"], "kind": ob["kind"], "path_instances": ob["instances"],
                        "discharged_instances": ob["discharged"], "backends": ob["backends"]})
    for r in ok_reports[:2]:
        if r.get("path_details"):
            samples.append({"function": r["function"], "example_paths": r["path_details"][:5]})
    known_ids = sorted({k for k, _ in known_hits})
    level = spec.get("level", "proof")
    n_known_obl = len({name for _, name in known_hits})
    cov = {
        "obligations": total,
        "discharged": discharged,
        "undischarged_known_findings": n_known_obl,
        "checker_cmd": f"./check {pid} --tier {tier}",
        "trusted_base": spec.get("trusted_base", []) + [
            "CPython semantics as encoded by pyvc (DESIGN.md section 4)", "z3 4.x/5.x and cvc5 1.0.3 SMT solvers",
            "pyvc symbolic executor (cross-checked by seeded mutants, DESIGN 3.7)"],
        "functions_under_contract": [
            {"function": r["function"], "source": f"{r['file']}:{r['line']}", "paths": r["paths"],
             "path_outcomes": r["path_outcomes"], "obligations": len(r["obligations"]),
             "inlined_callees": r["inlined"], "callees_by_contract": r["by_contract"], "stubs": r["stubs"],
             "role": ("supporting: summarised by contract inside a function of this property; verified for what its callers assume"
                      if r["obligations"] and all(ob.get("supporting") for ob in r["obligations"]) else "carries clauses of this property")}
            for r in ok_reports],
        "lemmas": [{"name": lr["function"], "obligations": len(lr["obligations"])} for lr in lemma_reports],
        "backends": backends,
        "solver_time_s": round(sum(r.get("solver_time_s", 0) for r in ok_reports + lemma_reports), 3),
        "paths": sum(r["paths"] for r in ok_reports),
        "bounded_standins": spec.get("bounded", []),
        "known_findings_reported": known_ids,
        "samples": samples,
        "explanation": spec.get("explanation", ""),
        "evaluations": total,
        "distinct_nontrivial": len({ob["name"] for _, ob in relevant if "simplify" not in ob["backends"] or len(ob["backends"]) > 1}),
        "rule": "one case = one named obligation (function::kind::label) generated from the real source; "
                "non-trivial = needed an SMT solver call (not closed by term simplification alone)",
        "checker_errors": [e["error"] for e in errors],
    }
    ev = {
        "property_id": pid, "tier": tier, "seed": seed, "level": level, "coverage": cov,
        "assumptions": spec.get("assumptions", []) + COMMON_ASSUMPTIONS,
        "wall_s": round(wall, 2), "violations": len(violations),
    }
    evdir = os.environ.get("PYVC_EVIDENCE_DIR") or os.path.join(HERE, "evidence")
    os.makedirs(evdir, exist_ok=True)
    with open(os.path.join(evdir, f"{pid}.json"), "w") as fh:
        json.dump(ev, fh, indent=1, default=str)


COMMON_ASSUMPTIONS = [
    "Python int = mathematical integer (exact); // and % only with provably positive divisor",
    "dict iteration order = insertion order; dict(sorted(d.items())) orders by key; dict(pairs) keeps first position and last value",
    "exceptions arise only from explicit raise, declared raises of stubs/contracts and modelled runtime errors "
    "(None dereference, wrong PDU cast, KeyError, failed assert, ZeroDivisionError); MemoryError/RecursionError/signals/threads out of scope",
    "logger calls are dropped (arguments not evaluated); exception messages are not modelled",
    "pre-state heap of a verified function is tree-shaped except for aliasing created by the function itself",
]


def main(argv=None):
    ap = argparse.ArgumentParser()
    ap.add_argument("what")
    ap.add_argument("path", nargs="?")
    ap.add_argument("--tier", default=os.environ.get("VERIF_TIER", "quick"))
    a = ap.parse_args(argv)
    seed = int(os.environ.get("VERIF_SEED", "0"))
    if a.what == "replay":
        from pyvc.replay import replay_file
        return replay_file(a.path)
    if a.what == "selftest":
        from pyvc.selftest.run import main as st_main
        return st_main()
    if a.what == "all":
        from contracts.properties import PROPERTIES
        rc = 0
        for pid in PROPERTIES:
            rc = max(rc, run_property(pid, a.tier, seed))
        return rc
    return run_property(a.what, a.tier, seed)


if __name__ == "__main__":
    sys.exit(main())
