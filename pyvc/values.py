"""Symbolic value domain of pyvc.

Concrete Python values (int, bool, None, str, bytes, tuple, enum members, real
classes/functions/modules) are represented by themselves.  Symbolic scalars are
raw z3 expressions (Int / Bool sort).  Everything else is one of the wrapper
classes below.  No wrapper defines __bool__/__eq__ magic: truth and equality
always go through the helpers at the bottom, so accidental concretisation of a
symbolic value raises instead of silently taking one branch.
"""
from __future__ import annotations

import enum
import itertools

import z3


class CheckerError(Exception):
    """The verifier itself cannot continue (unsupported construct, stub mismatch)."""


class Unsupported(CheckerError):
    pass


# ----------------------------------------------------------------------------------------------
# sorts used for opaque things
PathSort = z3.DeclareSort("Path")
StrSort = z3.DeclareSort("Str")
BytesSort = z3.DeclareSort("Bytes")  # opaque byte strings (length via blen)
blen = z3.Function("blen", BytesSort, z3.IntSort())
ByteSeq = z3.SeqSort(z3.BitVecSort(8))


class SEnum:
    """Symbolic member of a (real) enum class; `e` is the Int-sorted member value."""

    __slots__ = ("cls", "e")

    def __init__(self, cls, e):
        self.cls = cls
        self.e = e

    def __repr__(self):
        return f"SEnum({self.cls.__name__},{self.e})"

    def domain(self):
        return z3.Or(*[self.e == int(m.value) for m in self.cls])


class SOpt:
    """Value that may be None: isnone is a z3 Bool, val the value otherwise."""

    __slots__ = ("isnone", "val")

    def __init__(self, isnone, val):
        self.isnone = isnone
        self.val = val

    def __repr__(self):
        return f"SOpt({self.isnone},{self.val!r})"


_obj_ids = itertools.count(1)


class SObj:
    """Heap object with concrete identity and named fields.  `cls` is the real Python class."""

    def __init__(self, cls, fields=None, label=None):
        self.__dict__["cls"] = cls
        self.__dict__["f"] = dict(fields or {})
        self.__dict__["oid"] = next(_obj_ids)
        self.__dict__["label"] = label

    def __getattr__(self, name):  # contract-side convenience: o.progress
        f = self.__dict__["f"]
        if name in f:
            return f[name]
        raise AttributeError(f"{self.cls.__name__} (symbolic) has no field {name!r}")

    def __setattr__(self, name, value):
        self.__dict__["f"][name] = value

    def __repr__(self):
        return f"<S:{self.cls.__name__}#{self.oid}>"


class SExc:
    """A raised exception: real exception class + evaluated constructor arguments."""

    def __init__(self, cls, args=(), kwargs=None, line=None):
        self.cls = cls
        self.args = tuple(args)
        self.kwargs = dict(kwargs or {})
        self.line = line
        self.origin = None  # qualified name of the function in which it was raised

    def __repr__(self):
        return f"SExc({self.cls.__name__}@{self.line})"


class SPairList:
    """List of (int,int) pairs with symbolic length: a[i], b[i] for 0 <= i < n.  Immutable value;
    the interpreter stores it in a ListCell to give it Python's reference semantics."""

    __slots__ = ("a", "b", "n")

    def __init__(self, a, b, n):
        self.a, self.b, self.n = a, b, n

    @staticmethod
    def empty():
        z = z3.K(z3.IntSort(), z3.IntVal(0))
        return SPairList(z, z, z3.IntVal(0))

    @staticmethod
    def fresh(name):
        I = z3.IntSort()
        return SPairList(z3.Array(name + ".a", I, I), z3.Array(name + ".b", I, I), z3.Int(name + ".n"))

    def append(self, p):
        x, y = p
        return SPairList(z3.Store(self.a, self.n, x), z3.Store(self.b, self.n, y), self.n + 1)

    def __repr__(self):
        return f"SPairList(n={self.n})"


class ListCell:
    """Mutable list object.  `items` is either a Python list (concrete length) or an SPairList."""

    def __init__(self, items):
        self.items = items

    def __repr__(self):
        return f"ListCell({self.items!r})"


class SDict:
    """dict[int,int] value: domain, values, insertion order (keys[0..n)) and inverse index pos.
    Well-formedness (see wf()) is assumed for pre-state dicts and maintained by the operations."""

    __slots__ = ("dom", "val", "keys", "pos", "n", "meta")

    def __init__(self, dom, val, keys, pos, n, meta=None):
        self.dom, self.val, self.keys, self.pos, self.n = dom, val, keys, pos, n
        self.meta = meta  # provenance (e.g. the pair list a dict(...) call was built from), for lemmas

    @staticmethod
    def fresh(name):
        I, B = z3.IntSort(), z3.BoolSort()
        return SDict(
            z3.Array(name + ".dom", I, B),
            z3.Array(name + ".val", I, I),
            z3.Array(name + ".keys", I, I),
            z3.Array(name + ".pos", I, I),
            z3.Int(name + ".n"),
        )

    @staticmethod
    def empty():
        I = z3.IntSort()
        zi = z3.K(I, z3.IntVal(0))
        return SDict(z3.K(I, z3.BoolVal(False)), zi, zi, zi, z3.IntVal(0))

    def wf(self):
        """order enumerates the domain without repetition (pos is the inverse of keys)."""
        k, i = z3.Int("wf!k"), z3.Int("wf!i")
        return z3.And(
            self.n >= 0,
            z3.ForAll([k], z3.Implies(self.dom[k], z3.And(0 <= self.pos[k], self.pos[k] < self.n,
                                                          self.keys[self.pos[k]] == k))),
            z3.ForAll([i], z3.Implies(z3.And(0 <= i, i < self.n),
                                      z3.And(self.dom[self.keys[i]], self.pos[self.keys[i]] == i))),
        )

    def __repr__(self):
        return f"SDict(n={self.n})"


class DictCell:
    def __init__(self, d):
        self.d = d

    def __repr__(self):
        return f"DictCell({self.d!r})"


class SBytes:
    """Byte string.  `seq` is a z3 Seq(BitVec 8) when content matters, else None and only the
    opaque identity `b` (BytesSort) with blen(b) is known."""

    __slots__ = ("b", "seq")

    def __init__(self, b=None, seq=None):
        self.b, self.seq = b, seq

    def length(self):
        if self.seq is not None:
            return z3.Length(self.seq)
        return blen(self.b)

    def __repr__(self):
        return f"SBytes({self.b if self.seq is None else self.seq})"


class SPath:
    __slots__ = ("p",)

    def __init__(self, p):
        self.p = p

    def __repr__(self):
        return f"SPath({self.p})"


class SStr:
    __slots__ = ("s",)

    def __init__(self, s):
        self.s = s

    def __repr__(self):
        return f"SStr({self.s})"


class Opaque:
    """Value the model says nothing about (log strings, floats, TLV payloads)."""

    def __init__(self, what=""):
        self.what = what

    def __repr__(self):
        return f"Opaque({self.what})"


class BoundMethod:
    def __init__(self, obj, name, func=None):
        self.obj, self.name, self.func = obj, name, func


# ----------------------------------------------------------------------------------------------
# formula helpers usable on concrete and symbolic operands alike

def is_sym(v):
    return isinstance(v, z3.ExprRef)


def to_z3_bool(v):
    if isinstance(v, bool):
        return z3.BoolVal(v)
    if isinstance(v, z3.BoolRef):
        return v
    if isinstance(v, int):
        return z3.BoolVal(v != 0)
    if isinstance(v, z3.ArithRef):
        return v != 0
    raise CheckerError(f"not a boolean: {v!r}")


def to_z3_int(v):
    if isinstance(v, bool):
        return z3.IntVal(1 if v else 0)
    if isinstance(v, int):
        return z3.IntVal(int(v))
    if isinstance(v, z3.ArithRef):
        return v
    if isinstance(v, z3.BoolRef):
        return z3.If(v, 1, 0)
    if isinstance(v, SEnum):
        return v.e
    raise CheckerError(f"not an integer: {v!r}")


def And_(*xs):
    xs = [x for x in xs if x is not True]
    if any(x is False for x in xs):
        return False
    if not xs:
        return True
    if len(xs) == 1:
        return xs[0]
    return z3.And(*[to_z3_bool(x) for x in xs])


def Or_(*xs):
    xs = [x for x in xs if x is not False]
    if any(x is True for x in xs):
        return True
    if not xs:
        return False
    if len(xs) == 1:
        return xs[0]
    return z3.Or(*[to_z3_bool(x) for x in xs])


def Not_(x):
    if isinstance(x, bool):
        return not x
    return z3.Not(to_z3_bool(x))


def Implies_(a, b):
    if a is False or b is True:
        return True
    if a is True:
        return b
    return z3.Implies(to_z3_bool(a), to_z3_bool(b))


def Ite_(c, a, b):
    if c is True:
        return a
    if c is False:
        return b
    if isinstance(a, (bool, z3.BoolRef)) and isinstance(b, (bool, z3.BoolRef)):
        return z3.If(c, to_z3_bool(a), to_z3_bool(b))
    return z3.If(c, to_z3_int(a), to_z3_int(b))


def enum_int(m):
    return int(m.value)


def is_intenum_cls(c):
    return isinstance(c, type) and issubclass(c, enum.IntEnum)


def Eq_(a, b):
    """Python `==` as a formula (bool or z3 Bool)."""
    # None / optional
    if isinstance(a, SOpt) or isinstance(b, SOpt):
        if isinstance(b, SOpt) and not isinstance(a, SOpt):
            a, b = b, a
        if b is None:
            return a.isnone
        if isinstance(b, SOpt):
            return Or_(And_(a.isnone, b.isnone), And_(Not_(a.isnone), Not_(b.isnone), Eq_(a.val, b.val)))
        return And_(Not_(a.isnone), Eq_(a.val, b))
    if a is None or b is None:
        return a is None and b is None
    # enums
    ea, eb = isinstance(a, (SEnum, enum.Enum)), isinstance(b, (SEnum, enum.Enum))
    if ea or eb:
        ca = a.cls if isinstance(a, SEnum) else (type(a) if ea else None)
        cb = b.cls if isinstance(b, SEnum) else (type(b) if eb else None)
        if ea and eb:
            if ca is not cb and not (is_intenum_cls(ca) and is_intenum_cls(cb)):
                return False  # members of different plain Enum classes never compare equal
            va = a.e if isinstance(a, SEnum) else enum_int(a)
            vb = b.e if isinstance(b, SEnum) else enum_int(b)
            r = va == vb
            return bool(r) if isinstance(r, bool) else r
        # enum against int-like
        e, o, c = (a, b, ca) if ea else (b, a, cb)
        if not is_intenum_cls(c):
            return False
        if isinstance(o, (int, z3.ArithRef, bool, z3.BoolRef)):
            r = to_z3_int(e) == to_z3_int(o) if (is_sym(o) or isinstance(e, SEnum)) else (enum_int(e) == int(o))
            return r
        return False
    if isinstance(a, tuple) and isinstance(b, tuple):
        if len(a) != len(b):
            return False
        return And_(*[Eq_(x, y) for x, y in zip(a, b)])
    if isinstance(a, SPath) and isinstance(b, SPath):
        return a.p == b.p
    if isinstance(a, SStr) and isinstance(b, SStr):
        return a.s == b.s
    if isinstance(a, (SBytes, bytes)) and isinstance(b, (SBytes, bytes)):
        return bytes_eq(a, b)
    if isinstance(a, SObj) and isinstance(b, SObj):
        if a is b:
            return True
        raise Unsupported("== on heap objects must be resolved by a class-specific __eq__ stub")
    if is_sym(a) or is_sym(b):
        if isinstance(a, (bool, z3.BoolRef)) and isinstance(b, (bool, z3.BoolRef)):
            return to_z3_bool(a) == to_z3_bool(b)
        if isinstance(a, (int, z3.ArithRef, z3.BoolRef)) and isinstance(b, (int, z3.ArithRef, z3.BoolRef)):
            return to_z3_int(a) == to_z3_int(b)
        if is_sym(a) and is_sym(b) and a.sort() == b.sort():
            return a == b
        return False
    if type(a) in (int, bool, str, bytes, float) and type(b) in (int, bool, str, bytes, float):
        return a == b
    if isinstance(a, (SObj, SPath, SStr, SBytes, Opaque)) or isinstance(b, (SObj, SPath, SStr, SBytes, Opaque)):
        return False if type(a) is not type(b) else _unsupported_eq(a, b)
    return a == b


def _unsupported_eq(a, b):
    raise Unsupported(f"== between {a!r} and {b!r}")


# known-content byte strings are kept as python bytes; symbolic as SBytes
_bytes_consts = {}


def bytes_const(b: bytes):
    """Opaque BytesSort constant for a concrete bytes literal (distinct literals -> distinct consts
    is NOT assumed unless lengths differ; equal literals -> same const)."""
    if b not in _bytes_consts:
        _bytes_consts[b] = z3.Const("bytes!" + b.hex(), BytesSort)
    return _bytes_consts[b]


def bytes_eq(a, b):
    if isinstance(a, bytes) and isinstance(b, bytes):
        return a == b
    sa = a if isinstance(a, SBytes) else None
    sb = b if isinstance(b, SBytes) else None
    if (sa and sa.seq is not None) or (sb and sb.seq is not None):
        qa = sa.seq if sa else z3.Concat(*[z3.Unit(z3.BitVecVal(x, 8)) for x in a]) if len(a) > 1 else (
            z3.Unit(z3.BitVecVal(a[0], 8)) if len(a) == 1 else z3.Empty(ByteSeq))
        qb = sb.seq if sb else z3.Concat(*[z3.Unit(z3.BitVecVal(x, 8)) for x in b]) if len(b) > 1 else (
            z3.Unit(z3.BitVecVal(b[0], 8)) if len(b) == 1 else z3.Empty(ByteSeq))
        return qa == qb
    za = sa.b if sa else bytes_const(a)
    zb = sb.b if sb else bytes_const(b)
    return za == zb


def bytes_len(v):
    if isinstance(v, bytes):
        return len(v)
    if isinstance(v, SBytes):
        return v.length()
    raise CheckerError(f"len() of non-bytes {v!r}")


# ----------------------------------------------------------------------------------------------
# definitional axioms of spec-level predicates (added to every obligation that mentions them)
DEFN_AXIOMS = {}  # decl name -> [axiom]
VIEW_PREDS = {}  # view predicate name -> (dict value, witness function)
_view_memo = {}


def interval_view(d, x):
    """x is covered by some range [k, d[k]) of the dict: uninterpreted predicate with triggered
    definitional axioms and a Skolem witness function (inline exists goes `unknown`)."""
    key = (d.dom.get_id(), d.val.get_id())
    if key not in _view_memo:
        n = len(_view_memo)
        I = z3.IntSort()
        V = z3.Function(f"View{n}", I, z3.BoolSort())
        w = z3.Function(f"view{n}.w", I, I)
        xx, kk = z3.Int(f"vw{n}!x"), z3.Int(f"vw{n}!k")
        ax1 = z3.ForAll([xx], z3.Implies(V(xx), z3.And(d.dom[w(xx)], w(xx) <= xx, xx < d.val[w(xx)])), patterns=[V(xx)])
        ax2 = z3.ForAll([kk, xx], z3.Implies(z3.And(d.dom[kk], kk <= xx, xx < d.val[kk]), V(xx)),
                        patterns=[z3.MultiPattern(d.dom[kk], V(xx))])
        DEFN_AXIOMS[V.name()] = [ax1, ax2]
        _view_memo[key] = (V, d)  # keep d alive so ids stay unique
        VIEW_PREDS[V.name()] = (d, w)
    return _view_memo[key][0](x)


def axioms_for(formulas):
    """definitional axioms of every registered predicate occurring in the formulas (transitively)."""
    need, out = set(), []
    seen = set()
    stack = list(formulas)
    while stack:
        e = stack.pop()
        i = e.get_id()
        if i in seen:
            continue
        seen.add(i)
        if z3.is_app(e):
            nm = e.decl().name()
            if nm in DEFN_AXIOMS and nm not in need:
                need.add(nm)
                out.extend(DEFN_AXIOMS[nm])
                stack.extend(DEFN_AXIOMS[nm])
            stack.extend(e.children())
        elif z3.is_quantifier(e):
            stack.append(e.body())
    return out


def _store_indices(arr):
    out = []
    while z3.is_app(arr) and arr.decl().kind() == z3.Z3_OP_STORE:
        out.append(arr.arg(1))
        arr = arr.arg(0)
    return out


def view_hints(hyps, goal):
    """Ground witness candidates for a goal `View_d(t)`: the witnesses other views assign to t and the
    indices at which d was updated.  Only ground terms are added (sound); they feed E-matching of the
    view axioms, which otherwise depends on the solver's luck."""
    if not (z3.is_app(goal) and goal.decl().name() in VIEW_PREDS):
        return []
    d, w = VIEW_PREDS[goal.decl().name()]
    t = goal.arg(0)
    cands = list(_store_indices(d.dom)) + list(_store_indices(d.val))
    names = set()
    stack, seen = list(hyps), set()
    while stack:
        e = stack.pop()
        if e.get_id() in seen:
            continue
        seen.add(e.get_id())
        if z3.is_quantifier(e):
            stack.append(e.body())
        elif z3.is_app(e):
            if e.decl().name() in VIEW_PREDS:
                names.add(e.decl().name())
            stack.extend(e.children())
    for nm in names:
        if nm != goal.decl().name():
            cands.append(VIEW_PREDS[nm][1](t))
    return [d.dom[c] for c in cands]
