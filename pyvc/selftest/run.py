"""Cross-check of the VC generator's Python semantics against CPython: every snippet is executed symbolically (all paths, symbolic
integer arguments); for each concrete argument tuple of a grid the path whose condition holds must exist, be unique, and its
symbolic result must evaluate to what CPython returns.  ./check selftest runs it; a mismatch is a CHECKER-ERROR."""
from __future__ import annotations

import inspect
import itertools
import sys

import z3

GRID = [-2, -1, 0, 1, 2, 3, 5]


def run():
    from pyvc.checker import world
    from pyvc.core import T, Interp, PathCtx, PathEnd, RaiseSig
    from pyvc.values import to_z3_bool, to_z3_int, SOpt
    from pyvc.selftest import snippets
    w = world()
    w.index.add_module(snippets)
    fails, n_cases, n_fn = [], 0, 0
    for name, fn in inspect.getmembers(snippets, inspect.isfunction):
        if fn.__module__ != snippets.__name__ or name.startswith("_"):
            continue
        fi = w.index.lookup_real(fn)
        n_fn += 1
        # enumerate all symbolic paths
        work, results = [[]], []
        try:
            while work:
                prefix = work.pop()
                ctx = PathCtx(prefix)
                I = Interp(ctx, w)
                a, b = z3.Int("a"), z3.Int("b")
                try:
                    r = I.call_function(fi, [a, b], {})
                    results.append((list(ctx.pc), r))
                except PathEnd:
                    pass
                except RaiseSig as e:
                    results.append((list(ctx.pc), ("raise", getattr(getattr(e, "exc", None), "cls", type(e)).__name__)))
                work.extend(ctx.pending)
        except Exception as e:  # noqa: BLE001
            fails.append(f"{name}: symbolic execution failed: {type(e).__name__}: {e}")
            continue
        for va, vb in itertools.product(GRID, GRID):
            n_cases += 1
            try:
                want = fn(va, vb)
            except Exception as e:  # noqa: BLE001
                want = ("raise", type(e).__name__)
            sub = [(z3.Int("a"), z3.IntVal(va)), (z3.Int("b"), z3.IntVal(vb))]
            hits = []
            for hyps, r in results:
                s = z3.Solver()
                for h in hyps:
                    s.add(z3.substitute(to_z3_bool(h), *sub))
                if s.check() == z3.sat:
                    hits.append((s.model(), r))
            if len(hits) != 1:
                fails.append(f"{name}({va},{vb}): {len(hits)} symbolic paths are feasible for this input")
                continue
            model, r = hits[0]
            got = concretize(r, sub, model)
            if got != norm(want):
                fails.append(f"{name}({va},{vb}): CPython returns {want!r}, the symbolic result evaluates to {got!r}")
    return {"functions": n_fn, "cases": n_cases, "failures": fails}


def norm(v):
    if isinstance(v, bool):
        return int(v)
    return v


def concretize(r, sub, model):
    from pyvc.values import SOpt
    if isinstance(r, tuple) and r and r[0] == "raise":
        return r
    if r is None:
        return None
    if isinstance(r, SOpt):
        isn = model.eval(z3.substitute(r.isnone, *sub), model_completion=True)
        if z3.is_true(isn):
            return None
        r = r.val
    if isinstance(r, bool):
        return int(r)
    if isinstance(r, int):
        return r
    if isinstance(r, z3.BoolRef):
        v = model.eval(z3.substitute(r, *sub), model_completion=True)
        return 1 if z3.is_true(v) else 0
    if isinstance(r, z3.ArithRef):
        v = model.eval(z3.substitute(r, *sub), model_completion=True)
        return v.as_long()
    return repr(r)


def main():
    res = run()
    for f in res["failures"][:30]:
        print("SELFTEST-MISMATCH", f)
    print(f"selftest: {res['functions']} snippets, {res['cases']} concrete cases, {len(res['failures'])} mismatches")
    return 0 if not res["failures"] else 3


if __name__ == "__main__":
    sys.exit(main())
