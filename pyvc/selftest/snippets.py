"""Small functions over ints / bools / None / tuples / dicts / lists that exercise the Python semantics the VC generator
encodes.  pyvc/selftest/run.py executes each of them symbolically and compares, for a grid of concrete arguments, the value
of the symbolic result with what CPython computes.  (Test inputs of the verifier, not part of any proof.)"""


def or_int(a, b):
    return a or b


def and_int(a, b):
    return a and b


def or_optional(a, b):
    x = a if a > 0 else None
    return x or b


def and_optional(a, b):
    x = a if a != 3 else None
    y = x and b
    return 0 if y is None else y


def or_chain(a, b):
    return (a or b or 7) + 1


def ternary(a, b):
    return a if a < b else b


def min_max(a, b):
    return min(a, b) * 10 + max(a, b)


def min3(a, b):
    return min(a, b, 2)


def floordiv_mod(a, b):
    if b > 0:
        return (a // b) * 100 + a % b
    return -1


def chained_cmp(a, b):
    return 1 if 0 <= a < b else 0


def unary(a, b):
    return -a + (1 if not b else 0)


def truthiness(a, b):
    r = 0
    if a:
        r += 1
    if not b:
        r += 2
    return r


def augmented(a, b):
    x = a
    x += b
    x -= 1
    x *= 2
    return x


def tuples(a, b):
    p = (a, b)
    q = (p[1], p[0])
    return q[0] * 3 - q[1]


def unpack_swap(a, b):
    x, y = b, a
    return x * 2 + y


def concrete_loop(a, b):
    s = 0
    for i in range(3):
        if i == 1:
            continue
        s += a + i
    k = 0
    while k < 2:
        s -= b
        k += 1
    return s


def loop_break(a, b):
    s = 0
    for i in range(4):
        if i == a:
            break
        s += 1
    return s * 10 + b


def optional_flow(a, b):
    x = None if a == 0 else a
    if x is None:
        return b
    return x + b


def is_not_none(a, b):
    x = None if a < b else b
    return 1 if x is not None else 0


def bool_arith(a, b):
    return (a == b) + (a != b) * 2 + (a <= b) * 4


def bool_and_result(a, b):
    return a < b and b < 3


def bool_or_result(a, b):
    return a < b or b == 2


def nested_if(a, b):
    if a > 0:
        if b > 0:
            return 1
        elif b == 0:
            return 2
        return 3
    elif a == 0:
        return 4
    return 5


def early_return_loop(a, b):
    for i in range(3):
        if a + i == b:
            return i
    return -1


def dict_ops(a, b):
    d = {}
    d.update({a: b})
    d.update({b: a})
    r = d.get(a)
    return (0 if r is None else r) * 10 + len(d)


def dict_pop(a, b):
    d = {1: 10, 2: 20}
    d.update({a: 5})
    v = d.pop(1)
    return v + len(d) + (1 if b in d else 0)


def list_ops(a, b):
    xs = []
    xs.append(a)
    if b > 0:
        xs.append(b)
    return len(xs)


def try_except(a, b):
    try:
        if a == b:
            raise ValueError("x")
        return 1
    except ValueError:
        return 2


def assert_ok(a, b):
    try:
        assert a != b
        return 1
    except AssertionError:
        return 0


def in_tuple(a, b):
    return 1 if a in (1, 2, b) else 0


def not_in_list(a, b):
    return 1 if a not in [0, b] else 0


def cond_expr_nested(a, b):
    return (1 if a > b else 2) if a != 0 else (3 if b else 4)


def compare_none(a, b):
    x = None if a == 1 else a
    return 1 if x == b else 0


def max_with_zero(a, b):
    return max(0, a - b)


def abs_like(a, b):
    d = a - b
    if d < 0:
        d = -d
    return d


def shadow_param(a, b):
    a = a + 1
    b = a * b
    return b


def walrus_free_chain(a, b):
    r = 0
    if a == 1 or b == 1:
        r += 1
    if a == 1 and b == 1:
        r += 2
    if not (a == 1 or b == 2):
        r += 4
    return r


# ---------------------------------------------------------------- objects, enums, bytes, defaults, keyword arguments
import enum as _enum
from dataclasses import dataclass as _dataclass, field as _field


class _Color(_enum.IntEnum):
    RED = 1
    GREEN = 2
    BLUE = 5


class _Mode(_enum.Enum):
    A = 0
    B = 1


@_dataclass
class _Box:
    lo: int = 0
    hi: int = 10
    tags: list = _field(default_factory=list)

    @property
    def width(self):
        return self.hi - self.lo

    def grow(self, by=1):
        self.hi += by
        return self.width

    def clip(self, x):
        if x < self.lo:
            return self.lo
        if x > self.hi:
            raise ValueError("beyond")
        return x


def enum_compare(a, b):
    c = _Color.RED if a > 0 else _Color.BLUE
    if c == _Color.RED:
        return 1 + b
    return c + b


def enum_in_list(a, b):
    m = _Mode.A if a == b else _Mode.B
    return 1 if m in [_Mode.A] else 2


def enum_identity(a, b):
    m = _Mode.B if a < 0 else _Mode.A
    return 3 if m is _Mode.B else 4


def object_fields(a, b):
    x = _Box(a, a + 3)
    x.grow()
    x.grow(by=b)
    return x.width * 10 + x.lo


def object_default_factory(a, b):
    x = _Box()
    y = _Box()
    x.tags.append(a)
    return len(y.tags) * 10 + len(x.tags) + b


def callee_raises(a, b):
    x = _Box(0, 3)
    try:
        return x.clip(a) + b
    except ValueError:
        return -100


def keyword_and_default(a, b):
    def_box = _Box(hi=a)
    return def_box.hi * 2 + def_box.lo + b


def bytes_len(a, b):
    d = b"abcdef"
    n = len(d)
    return n * 10 + (1 if a else 0) + b


def empty_container_truth(a, b):
    xs = []
    r = 0
    if not xs:
        r += 1
    if a > 0:
        xs.append(a)
    if xs:
        r += 2
    d = {}
    if not d:
        r += 4
    d.update({1: b})
    if d:
        r += 8
    return r


def dict_membership(a, b):
    d = {1: 10, 3: 30}
    r = 0
    if a in d:
        r += d[a]
    if b not in d:
        r += 1
    return r


def dict_keyerror(a, b):
    d = {1: 10}
    try:
        return d[a] + b
    except KeyError:
        return -1


def none_default(a, b):
    x = None
    if a > 1:
        x = b
    y = x if x is not None else 7
    return y


def int_bool_mix(a, b):
    flag = a > 0
    return flag + b if flag else b - 1


def compare_chain_mixed(a, b):
    return 1 if a < b <= 3 or a == 5 else 0


def string_equal(a, b):
    s = "x" if a > b else "y"
    return 1 if s == "x" else 2


def reassign_in_branches(a, b):
    if a > b:
        m = a
    else:
        m = b
    if m > 2:
        m = 2
    return m
