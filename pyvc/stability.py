"""dev tool: run every sub-goal of the matching functions under several z3 seeds; report flaky ones."""
import sys, time, z3
from stubs.world import build_world
from pyvc.driver import explore, split_goal, _z3_check, cone_of_influence

def main():
    w = build_world()
    pats = sys.argv[1:]
    seeds = 6
    for fq, c in w.contracts.items():
        if pats and not any(p in fq for p in pats):
            continue
        paths, obs, st = explore(w, c)
        for ob in obs:
            if z3.is_true(z3.simplify(ob.goal)):
                continue
            for hy, g in split_goal(list(ob.hyps), ob.goal):
                res = []
                for seed in range(seeds):
                    t = time.time()
                    r, s = _z3_check(hy, g, {"smt.random_seed": seed}, 6_000_000, ob.hints)
                    res.append((str(r), round(time.time() - t, 1)))
                if any(r != "unsat" for r, _ in res) or max(t for _, t in res) > 1.5:
                    print(ob.name.split("::", 1)[1], "path", ob.path_id, "|", str(g)[:60].replace("\n", " "), res)
    print("done")
main()
