"""Concrete replay of violations on the REAL code.

A failed obligation of function F is followed by a search for a failing input of F's concrete oracle
(`contracts/concrete_*.py`): the oracle states the same clauses as the SMT contract, but over real
Python objects, and runs the real function from /repo's current tree.  The search first tries inputs
derived from the solver's counter-model (scalars of the model mapped onto the oracle's parameters), then
a small-scope enumeration.  A case that fails concretely is written into the replay file and
`./check replay <file>` re-runs exactly that case on whatever tree is current.
"""
from __future__ import annotations

import importlib
import json
import os
import sys
import traceback

HERE = os.path.dirname(os.path.dirname(os.path.abspath(__file__)))

ORACLE_MODULES = ["contracts.concrete_tracker", "contracts.concrete_pure", "contracts.concrete_handlers"]
_ORACLES = None


def oracles():
    """fq -> oracle object with .search(model, budget) -> case|None and .run(case) -> (ok, detail)"""
    global _ORACLES
    if _ORACLES is None:
        _ORACLES = {}
        for m in ORACLE_MODULES:
            try:
                mod = importlib.import_module(m)
            except ModuleNotFoundError as e:
                if e.name == m:
                    continue
                raise
            _ORACLES.update(mod.ORACLES)
    return _ORACLES


def find_failing_input(function_key, obligation, model, budget_s=90, pid=None):
    fq = function_key.split("#")[0]
    o = oracles().get(fq)
    if o is None:
        return None
    try:
        try:
            case = o.search(model or {}, budget_s, obligation, pid=pid)
        except TypeError:
            case = o.search(model or {}, budget_s, obligation)
    except Exception:
        return {"confirmed": False, "error": traceback.format_exc()[-1500:]}
    if case is None:
        return {"confirmed": False, "searched": o.scope}
    ok, detail = o.run(case)
    return {"confirmed": not ok, "oracle": fq, "case": case, "observed": detail, "scope": o.scope}


def replay_file(path):
    p = path if os.path.isabs(path) else os.path.join(HERE, path)
    with open(p) as fh:
        rec = json.load(fh)
    print(f"replay: property={rec['property']} obligation={rec['obligation']}")
    rp = rec.get("replay") or {}
    if rp.get("case") is not None:
        o = oracles().get(rp["oracle"])
        ok, detail = o.run(rp["case"])
        print(f"  concrete case: {json.dumps(rp['case'])}")
        print(f"  observed on the current tree: {detail}")
        if not ok:
            print(f"VIOLATION property={rec['property']} replay={path} (concrete case fails on the current tree)")
            return 1
        print("  the recorded case passes on the current tree")
        return 0
    # no concrete input was found when the violation was reported: re-run the deductive check of that function
    print("  no concrete failing input recorded (no-failing-input-found); re-discharging the obligation on the current tree")
    print(f"  solver output at the time: {json.dumps(rec.get('solver_output'))[:600]}")
    from pyvc.checker import world
    from pyvc.driver import verify_function
    w = world()
    c = w.contracts.get(rec["function"])
    if c is None:
        print("CHECKER-ERROR contract not found")
        return 3
    rep = verify_function(w, c)
    for ob in rep["obligations"]:
        if ob["name"] == rec["obligation"]:
            if ob["discharged"] == ob["instances"]:
                print("  obligation is discharged on the current tree")
                return 0
            print(f"VIOLATION property={rec['property']} replay={path} obligation still fails no-failing-input-found")
            return 1
    print("  obligation no longer generated on the current tree")
    return 0
