"""dev tool: verify all contracts whose key contains one of the given substrings, in parallel"""
import sys, os, multiprocessing as mp, time
from pyvc import checker

def main():
    pats = [a for a in sys.argv[1:] if not a.startswith("--")]
    only = None
    for a in sys.argv[1:]:
        if a.startswith("--prop="):
            only = a.split("=", 1)[1]
    w = checker.world()
    keys = [k for k in w.contracts if any(p in k for p in pats)] if pats else list(w.contracts)
    keys = [k for k in keys if not w.contracts[k].trusted]
    jobs = []
    for k in keys:
        n = max(1, int(w.contracts[k].cost_hint))
        jobs += [(k, [], only, (i, n) if n > 1 else None) for i in range(n)]
    t0 = time.time()
    with mp.get_context("fork").Pool(min(16, len(jobs)), maxtasksperchild=1) as pool:
        parts = pool.map(checker._worker, jobs, chunksize=1)
    reps = checker.merge_parts(parts)
    for r in reps:
        if r["status"] != "ok":
            print("CHECKER-ERROR", r["function"], r["error"]); print(r.get("traceback", "")[-800:]); continue
        bad = [o for o in r["obligations"] if o["discharged"] != o["instances"]]
        print(f"{r['function']}: paths={r['paths']} {r['path_outcomes']} obligations={len(r['obligations'])} failed={len(bad)} wall={r['wall_s']}s dead={r.get('dead_ends')}")
        for o in bad:
            print("   FAIL", o["name"], f"{o['discharged']}/{o['instances']}")
            for f in o["failed"][:1]:
                m = f["model"] or {}
                print("      path", f["path"], f["verdict"], f["info"] or "", "SUBGOAL:", str(m.get("_subgoal"))[:220].replace("\n", " "))
    print(f"total wall {time.time()-t0:.0f}s")
main()
