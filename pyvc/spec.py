"""Contracts: sidecar specifications keyed by the qualified name of the real function."""
from __future__ import annotations

import z3

from .core import (
    Interp, PathCtx, PathEnd, QueueCell, RaiseSig, Roots, T, clone_graph, heap_diff, isnone, val, LoopSpec,
)
from .values import And_, CheckerError, Eq_, Implies_, Not_, Or_, SExc, SObj, SOpt, to_z3_bool, DictCell, ListCell


class Clause:
    def __init__(self, label, fn, props=(), when=None, lemmas=()):
        self.label, self.fn, self.props, self.when = label, fn, tuple(props), when
        self.lemmas = list(lemmas)  # [(label, fn(o, n, r))] proved in order, each usable by the next and by the goal


class RaiseClause:
    """`exc` may be raised only when `when(o)` holds; if iff=True it must be raised then.
    `post(o, n)` holds in the state in which it is raised; `modifies` as for the normal case unless given."""

    def __init__(self, label, exc, when=None, iff=False, post=None, props=(), modifies=None):
        self.label, self.exc, self.when, self.iff, self.post, self.props = label, exc, when, iff, post, tuple(props)
        self.modifies = modifies


class Lemma:
    """forall vars. body   -- proved for fresh constants (with optional ground hint terms that feed
    E-matching), then available as a quantified hypothesis."""

    def __init__(self, label, nvars, body, hints=None):
        self.label, self.nvars, self.body, self.hints = label, nvars, body, hints


class Contract:
    def __init__(self, fq, arg_types=None, requires=(), ensures=(), raises=(), modifies=(), result=None,
                 effects=None, emits=None, loops=None, props=(), setup=None, trusted=False, pure=False,
                 modular=True, notes="", pre_lemmas=(), guard_requires=False, raises_outside=()):
        self.fq = fq
        self.arg_types = dict(arg_types or {})
        self.requires = list(requires)  # [(label, fn(o))]
        self.ensures = list(ensures)  # [Clause]
        self.raises = list(raises)  # [RaiseClause]
        self.modifies = modifies  # list[str] or fn(o)->list[str]
        self.result = result  # T or None
        self.effects = effects  # None = unchecked, else set of allowed effect kinds
        self.emits = emits  # fn(o, n, result) -> [event pattern] or None (= unchecked)
        self.loops = dict(loops or {})  # ordinal -> LoopSpec
        self.props = tuple(props)
        self.setup = setup  # optional fn(interp, roots) run after pre-state creation (extra assumptions, ghost init)
        self.trusted = trusted
        self.pure = pure
        self.modular = modular
        self.notes = notes
        self.pre_lemmas = list(pre_lemmas)
        # guard_requires: callers need not establish `requires`; the postconditions are only assumed when it
        # holds, otherwise the callee's effect is unspecified (frame havocked, any of raises_outside possible)
        self.guard_requires = guard_requires
        self.raises_outside = tuple(raises_outside)

    # ------------------------------------------------------------------ used at call sites
    def modifies_list(self, o):
        m = self.modifies
        return list(m(o)) if callable(m) else list(m)

    def apply_at_call(self, interp: Interp, fi, args, kwargs, node):
        ctx = interp.ctx
        a = fi.node.args
        params = [x.arg for x in a.posonlyargs + a.args]
        roots = dict(zip(params, args))
        roots.update(kwargs)
        fr0 = None
        ndef = len(a.defaults)
        for i, p in enumerate(params):
            if p not in roots:
                di = i - (len(params) - ndef)
                if di < 0:
                    raise CheckerError(f"missing arg {p} in call of {fi.fq}")
                from .core import Frame
                roots[p] = interp.ev(a.defaults[di], Frame(fi, {}))
        line = getattr(node, "lineno", None)
        o = Roots(roots)
        if self.guard_requires:
            g = And_(*[fn(o) for _, fn in self.requires])
            if not ctx.decide(g):
                # outside the callee's precondition: unspecified effect within its frame
                old, _ = clone_graph(roots)
                for loc in self.modifies_list(Roots(old)):
                    obj, fld = interp.resolve_loc(roots, loc)
                    interp.havoc(obj, fld)
                for ex in self.raises_outside:
                    if ctx.decide(ctx.fresh(f"outside:{fi.node.name}:{ex.__name__}", "bool")):
                        e = SExc(ex, (), line=line)
                        e.origin = fi.qualname
                        raise RaiseSig(e)
                return interp.fresh_value(self.result, f"ret:{fi.node.name}!{next(ctx._n)}") if self.result is not None else None
        else:
            for label, fn in self.requires:
                ctx.oblige(f"{_caller(interp)}::pre-of-callee::{fi.qualname}.{label}", fn(o), kind="pre-of-callee",
                           line=line, props=self.props)
                ctx.assume(fn(o))
        old, _ = clone_graph(roots)
        oldr = Roots(old)
        # exceptional outcomes
        for rc in self.raises:
            w = rc.when(oldr) if rc.when is not None else True
            cond = w if rc.iff else And_(w, ctx.fresh(f"raises:{rc.label}", "bool"))
            if ctx.decide(cond):
                mods = rc.modifies if rc.modifies is not None else []
                for loc in (mods(oldr) if callable(mods) else mods):
                    obj, fld = interp.resolve_loc(roots, loc)
                    interp.havoc(obj, fld)
                if rc.post is not None:
                    ctx.assume(rc.post(oldr, Roots(roots)))
                e = SExc(rc.exc, (), line=line)
                e.origin = fi.qualname
                raise RaiseSig(e)
        # normal outcome
        for loc in self.modifies_list(oldr):
            obj, fld = interp.resolve_loc(roots, loc)
            interp.havoc(obj, fld)
        result = None
        if self.result is not None:
            result = interp.fresh_value(self.result, f"ret:{fi.node.name}!{next(ctx._n)}")
        newr = Roots(roots)
        if self.emits is not None:
            for pat in self.emits(oldr, newr, result):
                materialize_event(interp, roots, pat)
        for c in self.ensures:
            ctx.assume(c.fn(oldr, newr, result))
        if isinstance(result, SOpt):
            pass
        return result


def _caller(interp):
    return interp.call_stack[-1].fq if interp.call_stack else "<top>"


def materialize_event(interp, roots, pat):
    pat = dict(pat)
    kind = pat.pop("kind")
    if kind == "pdu":
        cls = pat.pop("cls")
        obj = pat.pop("obj", None)
        if obj is None:
            obj = interp.fresh_obj(cls, f"emit:{cls.__name__}!{next(interp.ctx._n)}")
            for k, v in pat.items():
                _set_path(obj, k, v)
        q = roots["self"].f["_pdus_to_be_sent"]
        q.appended.append(obj)
        interp.ctx.event("pdu", pdu=obj)
    else:
        interp.ctx.event(kind, **pat)


def _set_path(obj, path, v):
    parts = path.split(".")
    for p in parts[:-1]:
        obj = obj.f[p]
    obj.f[parts[-1]] = v


def _get_path(obj, path):
    for p in path.split("."):
        obj = obj.f[p] if isinstance(obj, SObj) else obj[p]
    return obj


# ----------------------------------------------------------------------------------------------
REGISTRY = {}


def contract(fq, **kw):
    c = Contract(fq, **kw)
    REGISTRY[fq] = c
    return c


def ens(label, props=()):
    def deco(fn):
        return Clause(label, fn, props)
    return deco
