"""Contracts: sidecar specifications keyed by the qualified name of the real function."""
from __future__ import annotations

import z3

from .core import (
    Interp, PathCtx, PathEnd, QueueCell, RaiseSig, Roots, T, clone_graph, heap_diff, isnone, val, LoopSpec,
)
from .values import And_, CheckerError, Eq_, Implies_, Not_, Or_, SExc, SObj, SOpt, to_z3_bool, DictCell, ListCell


class TraceUnavailable(Exception):
    pass


class NoTrace:
    """stands for the event trace of a callee at a call site that uses the callee's contract: any look at
    it aborts the evaluation of the clause (the clause is then not assumed)"""

    def _no(self, *a, **k):
        raise TraceUnavailable()

    __iter__ = __len__ = __getitem__ = __bool__ = __contains__ = _no


class Clause:
    def __init__(self, label, fn, props=(), when=None, lemmas=(), assumable=True):
        self.label, self.fn, self.props, self.when = label, fn, tuple(props), when
        self.assumable = assumable  # False: proved (or reported) for the function itself, never assumed by its callers
        self.lemmas = list(lemmas)  # [(label, fn(o, n, r))] proved in order, each usable by the next and by the goal


class RaiseClause:
    """`exc` may be raised only when `when(o)` holds; if iff=True it must be raised then.
    `post(o, n)` holds in the state in which it is raised; `modifies` as for the normal case unless given."""

    def __init__(self, label, exc, when=None, iff=False, post=None, props=(), modifies=None):
        self.label, self.exc, self.when, self.iff, self.post, self.props = label, exc, when, iff, post, tuple(props)
        self.modifies = modifies


class Lemma:
    """forall vars. body   -- proved for fresh constants (with optional ground hint terms that feed
    E-matching), then available as a quantified hypothesis."""

    def __init__(self, label, nvars, body, hints=None):
        self.label, self.nvars, self.body, self.hints = label, nvars, body, hints


class Contract:
    def __init__(self, fq, arg_types=None, requires=(), ensures=(), raises=(), modifies=(), result=None,
                 effects=None, emits=None, loops=None, props=(), setup=None, trusted=False, pure=False,
                 modular=True, notes="", pre_lemmas=(), guard_requires=False, raises_outside=(), instance=None,
                 cond_frames=(), call_effects=None):
        self.fq = fq
        # several contracts ("instances") may exist for one function, each for a slice of the pre-state space
        # (e.g. one per FSM step); the first registered / the one named `default_instance` is used at call sites
        self.instance = instance
        self.key = fq if instance is None else f"{fq}#{instance}"
        # conditional frames: [(label, when(o), modifies)] -- under `when`, nothing outside `modifies` changes
        self.cond_frames = list(cond_frames)
        # effects a caller must account for when the call is replaced by this contract (default: `effects`)
        self.call_effects = call_effects
        self.inline_callees = set()
        self.contract_callees = set()
        self.check_pre_when_inlined = True
        self.call_default = instance is None
        self.no_call_summary = False
        self.never_returns = False
        # slice: (prelude statement indices, statement index): only these top-level statements of the body are executed;
        # all slices of a function share requires == ensures (the mid-condition), which proves the whole sequence
        self.slice = None
        self.n_body_statements = None
        self.check_callee_pre = True  # False: callee `requires` are assumed, not obliged (proved by other contracts of this function)
        self.cost_hint = 1
        # labels of `requires` that are global invariants/environment assumptions: assumed at entry, not
        # re-proved at every internal call site (they are proved as postconditions of the public methods)
        self.assumed_requires = {"DestInv", "SrcInv", "default_fault_table", "env"}
        self.arg_types = dict(arg_types or {})
        self.requires = list(requires)  # [(label, fn(o))]
        self.ensures = list(ensures)  # [Clause]
        self.raises = list(raises)  # [RaiseClause]
        self.modifies = modifies  # list[str] or fn(o)->list[str]
        self.result = result  # T or None
        self.effects = effects  # None = unchecked, else set of allowed effect kinds
        self.emits = emits  # fn(o, n, result) -> [event pattern] or None (= unchecked)
        self.loops = dict(loops or {})  # ordinal -> LoopSpec
        self.props = tuple(props)
        self.setup = setup  # optional fn(interp, roots) run after pre-state creation (extra assumptions, ghost init)
        self.trusted = trusted
        self.pure = pure
        self.modular = modular
        self.notes = notes
        self.pre_lemmas = list(pre_lemmas)
        # guard_requires: callers need not establish `requires`; the postconditions are only assumed when it
        # holds, otherwise the callee's effect is unspecified (frame havocked, any of raises_outside possible)
        self.guard_requires = guard_requires
        self.raises_outside = tuple(raises_outside)

    def all_props(self):
        ps = set(self.props)
        for c in self.ensures:
            ps |= set(c.props)
        for rc in self.raises:
            ps |= set(rc.props)
        for sp in self.loops.values():
            ps |= set(sp.props)
        if self.effects is not None and self.fq.startswith("cfdppy.handler."):
            ps.add("C16")  # effect typing of the handler modules
        return ps

    # ------------------------------------------------------------------ used at call sites
    def modifies_list(self, o):
        m = self.modifies
        return list(m(o)) if callable(m) else list(m)

    def _bind(self, interp, fi, args, kwargs):
        a = fi.node.args
        params = [x.arg for x in a.posonlyargs + a.args]
        roots = dict(zip(params, args))
        roots.update(kwargs)
        ndef = len(a.defaults)
        for i, p in enumerate(params):
            if p not in roots:
                di = i - (len(params) - ndef)
                if di < 0:
                    raise CheckerError(f"missing arg {p} in call of {fi.fq}")
                from .core import Frame
                roots[p] = interp.ev(a.defaults[di], Frame(fi, {}))
        return roots

    def oblige_pre_at_call(self, interp, fi, args, kwargs, node):
        """the callee is inlined, but the caller must still establish its `requires` (non-invariant part)"""
        roots = self._bind(interp, fi, args, kwargs)
        o = Roots(roots)
        for label, fn in self.requires:
            if label in self.assumed_requires:
                continue
            interp.ctx.oblige(f"{_caller(interp)}::pre-of-callee::{fi.qualname}.{label}", fn(o), kind="pre-of-callee",
                              line=getattr(node, "lineno", None), props=_pre_props(self, interp))

    def apply_at_call(self, interp: Interp, fi, args, kwargs, node):
        ctx = interp.ctx
        roots = self._bind(interp, fi, args, kwargs)
        line = getattr(node, "lineno", None)
        o = Roots(roots)
        if self.guard_requires:
            g = And_(*[fn(o) for _, fn in self.requires])
            if not ctx.decide(g):
                # outside the callee's precondition: unspecified effect within its frame
                old, _ = clone_graph(roots)
                for loc in self.modifies_list(Roots(old)):
                    obj, fld = interp.resolve_loc(roots, loc)
                    interp.havoc(obj, fld)
                for ex in self.raises_outside:
                    if ctx.decide(ctx.fresh(f"outside:{fi.node.name}:{ex.__name__}", "bool")):
                        e = SExc(ex, (), line=line)
                        e.origin = fi.qualname
                        raise RaiseSig(e)
                return interp.fresh_value(self.result, f"ret:{fi.node.name}!{next(ctx._n)}") if self.result is not None else None
        else:
            vc = interp.verifying_contract
            for label, fn in self.requires:
                if vc is None or vc.check_callee_pre:
                    ctx.oblige(f"{_caller(interp)}::pre-of-callee::{fi.qualname}.{label}", fn(o), kind="pre-of-callee",
                               line=line, props=_pre_props(self, interp))
                ctx.assume(fn(o))
        old, _ = clone_graph(roots)
        oldr = Roots(old)
        # exceptional outcomes
        for rc in self.raises:
            w = rc.when(oldr) if rc.when is not None else True
            cond = w if rc.iff else And_(w, ctx.fresh(f"raises:{rc.label}", "bool"))
            if ctx.decide(cond):
                mods = rc.modifies if rc.modifies is not None else []
                for loc in (mods(oldr) if callable(mods) else mods):
                    obj, fld = interp.resolve_loc(roots, loc)
                    interp.havoc(obj, fld)
                if rc.post is not None:
                    try:
                        ctx.assume(rc.post(oldr, Roots(roots, NoTrace(), interp)))
                    except TraceUnavailable:
                        pass
                ctx.event("opaque_call", callee=fi.fq)
                e = SExc(rc.exc, (), line=line)
                e.origin = fi.qualname
                raise RaiseSig(e)
        # normal outcome: havoc the frame -- or the smaller frame of a conditional frame whose condition holds
        mods = self.modifies_list(oldr)
        silent = False
        for cf in self.cond_frames:
            label, when, cmods = cf[:3]
            w = when(oldr)
            if w is True or (w is not False and ctx.decide(w)):
                mods = list(cmods(oldr) if callable(cmods) else cmods)
                silent = len(cf) > 3 and cf[3].get("silent", False)  # proved: no event at all under `when`
                break
        for loc in mods:
            try:
                obj, fld = interp.resolve_loc(roots, loc)
            except CheckerError:
                continue  # location does not exist in this state (passes through None)
            interp.havoc(obj, fld)
        result = None
        if self.result is not None:
            result = interp.fresh_value(self.result, f"ret:{fi.node.name}!{next(ctx._n)}")
        newr = Roots(roots, NoTrace(), interp)
        if self.emits is not None:
            for pat in self.emits(oldr, newr, result):
                materialize_event(interp, roots, pat)
        elif not silent and not self.pure:
            ctx.event("opaque_call", callee=fi.fq)
        eff = self.call_effects if self.call_effects is not None else self.effects
        for k in (() if silent else (eff or ())):
            ctx.effect(k, f"via {fi.qualname}", line)
        for c in self.ensures:
            if not c.assumable:
                continue
            try:
                f = c.fn(oldr, newr, result)
            except TraceUnavailable:
                continue  # clause speaks about the callee's event trace: not available to the caller
            ctx.assume(f)
            interp.stats["assumed"].add((self.key, c.label))
        return result


def _pre_props(callee_contract, interp):
    """a callee precondition is an obligation of the CALLER's body: it counts for the properties of the contract being verified as
    well as for those the callee's contract serves (after it, the precondition is assumed, so a violated one is the only obligation
    of that path that reports)"""
    vc = interp.verifying_contract
    ps = list(callee_contract.props)
    for p in (vc.all_props() if vc is not None else ()):
        if p not in ps:
            ps.append(p)
    return tuple(ps)


def _caller(interp):
    return interp.call_stack[-1].fq if interp.call_stack else "<top>"


def materialize_event(interp, roots, pat):
    pat = dict(pat)
    kind = pat.pop("kind")
    if kind == "pdu":
        cls = pat.pop("cls")
        obj = pat.pop("obj", None)
        if obj is None:
            obj = interp.fresh_obj(cls, f"emit:{cls.__name__}!{next(interp.ctx._n)}")
            for k, v in pat.items():
                _set_path(obj, k, v)
        q = roots["self"].f["_pdus_to_be_sent"]
        q.appended.append(obj)
        interp.ctx.event("pdu", pdu=obj)
    else:
        interp.ctx.event(kind, **pat)


def _set_path(obj, path, v):
    parts = path.split(".")
    for p in parts[:-1]:
        obj = obj.f[p]
    obj.f[parts[-1]] = v


def _get_path(obj, path):
    for p in path.split("."):
        obj = obj.f[p] if isinstance(obj, SObj) else obj[p]
    return obj


# ----------------------------------------------------------------------------------------------
REGISTRY = {}


def contract(fq, **kw):
    c = Contract(fq, **kw)
    REGISTRY[fq] = c
    return c


def ens(label, props=()):
    def deco(fn):
        return Clause(label, fn, props)
    return deco
