"""Regenerates MANIFEST.json from contracts/properties.py (kept valid at all times)."""
import json, os, subprocess
import jsonschema

HERE = os.path.dirname(os.path.dirname(os.path.abspath(__file__)))


def main():
    from contracts.properties import PROPERTIES, NOT_APPLICABLE
    props = [json.loads(l)["id"] for l in open(os.path.join(HERE, "properties.jsonl"))]
    fix_commits = []
    try:
        out = subprocess.run(["git", "-C", "/repo", "log", "--format=%H %s"], capture_output=True, text=True).stdout
        fix_commits = [l.split()[0] for l in out.splitlines() if l.split(" ", 1)[1].startswith("fix:")]
    except Exception:
        pass
    checks = []
    for pid in props:
        if pid not in PROPERTIES:
            continue
        sp = PROPERTIES[pid]
        checks.append({
            "property_id": pid,
            "quick_cmd": f"./check {pid} --tier quick",
            "thorough_cmd": f"./check {pid} --tier thorough",
            "evidence_file": f"evidence/{pid}.json",
            "replay_cmd_template": "./check replay {path}",
            "engine": "pyvc",
            "level_claimed": {"category": sp.get("level", "proof"), "text": sp["level_text"], "design_ref": sp.get("design_ref", f"DESIGN.md section 7 ({pid})")},
            "level_note": sp["level_note"],
            "technique": sp.get("technique", "contract-based deductive verification: VCs generated from the real Python AST by symbolic execution against sidecar contracts, discharged by z3/cvc5"),
        })
    na = [{"property_id": pid, "reason": NOT_APPLICABLE.get(pid, "no obligations built for this property yet; not claimed")} for pid in props if pid not in PROPERTIES]
    m = {
        "version": 1,
        "setup_cmd": "bin/ensure-env",
        "hooks": {
            "guard": "CFDP_PY_VERIF",
            "enable": "no hooks are needed: contracts are sidecar files in /verif/contracts and the verifier reads /repo/src directly; the guard name is reserved and unused",
            "baseline_off_cmd": "cd /repo && /venv/bin/python -m pytest -ra -q -p no:cacheprovider --timeout=900 --continue-on-collection-errors",
            "source_commits": fix_commits,
            "add_only": True,
        },
        "engines": [{"name": "pyvc", "path": "pyvc/", "serves_properties": [c["property_id"] for c in checks],
                     "kind_free_text": "own VC generator: path-by-path symbolic execution of the real function ASTs (re-read from /repo/src on every run) against sidecar contracts; callees replaced by contracts or inlined; loops cut at invariants; obligations discharged by z3 (rlimit-bounded portfolio) with cvc5 as second back end"}],
        "checks": checks,
        "not_applicable": na,
        "notes": "Exit codes: 0 all obligations discharged (KNOWN-FINDING lines possible), 1 VIOLATION, 3 CHECKER-ERROR (verifier could not decide; never reported as violation). See DESIGN.md.",
    }
    schema = json.load(open("/root/.vp/MANIFEST.schema.json")) if os.path.exists("/root/.vp/MANIFEST.schema.json") else None
    if schema:
        jsonschema.validate(m, schema)
    with open(os.path.join(HERE, "MANIFEST.json"), "w") as fh:
        json.dump(m, fh, indent=1)
    print("MANIFEST.json written:", len(checks), "checks,", len(na), "not_applicable")


main()
