"""pyvc core: path-by-path symbolic execution of real Python function ASTs.

One `PathCtx` = one execution path (decision list, path condition, obligations, ghost trace).
Forking is done by re-execution: the driver keeps a work-list of decision prefixes.
"""
from __future__ import annotations

import ast
import dataclasses
import enum
import inspect
import itertools
import types

import z3

from .values import (
    And_, BoundMethod, CheckerError, DictCell, Eq_, Implies_, Ite_, ListCell, Not_, Opaque, Or_, SBytes, SDict, SEnum,
    SExc, SObj, SOpt, SPairList, SPath, SStr, Unsupported, bytes_len, is_sym, to_z3_bool, to_z3_int, BytesSort,
    PathSort, StrSort, blen,
)


# ----------------------------------------------------------------------------------------------
# control-flow signals
class ReturnSig(Exception):
    def __init__(self, value):
        self.value = value


class RaiseSig(Exception):
    def __init__(self, exc: SExc):
        self.exc = exc


class BreakSig(Exception):
    pass


class ContinueSig(Exception):
    pass


class PathEnd(Exception):
    """The current path ends here without reaching the function exit (loop-body paths, infeasible)."""

    def __init__(self, why=""):
        self.why = why


# ----------------------------------------------------------------------------------------------
# type descriptors for building symbolic pre-states and havocking
class T:
    class Int: pass
    class Bool: pass
    class Bytes: pass
    class Path: pass
    class Str: pass
    class IntDict: pass
    class PairList: pass
    class Queue: pass
    class Opaque: pass
    class ByteSeq: pass  # raw z3 Seq(BitVec 8) term (ghost/model state of library objects)
    class BytesContent: pass  # bytes value whose content is modelled (SBytes with a Seq)

    class Enum:
        def __init__(self, cls): self.cls = cls

    class Opt:
        def __init__(self, t): self.t = t

    class Obj:
        def __init__(self, cls): self.cls = cls

    class Pair: pass  # tuple[int,int]

    class ObjList:
        """symbolic-length list of opaque library objects of class `cls`; each element's whole state is an
        int pair kept in its `_pair` field (the stubs of `cls` interpret it)"""
        def __init__(self, cls): self.cls = cls

    class OneOf:
        """object of one of several classes (chosen by forking)"""
        def __init__(self, classes, allow_none=False): self.classes, self.allow_none = classes, allow_none

    class Shared:
        """the object is a process-wide singleton (dataclass field(default=obj))"""
        def __init__(self, real): self.real = real


def obj_wrapper(cls):
    def wrap(a, b):
        return SObj(cls, {"_pair": (a, b)}, cls.__name__)
    return wrap


class QueueCell:
    """deque of emitted PDUs: symbolic number of older entries + concretely known appended ones."""

    def __init__(self, base_len, appended=None):
        self.base_len = base_len
        self.appended = list(appended or [])

    def length(self):
        return self.base_len + len(self.appended)


class Obligation:
    __slots__ = ("name", "kind", "hyps", "goal", "line", "path_id", "props", "info", "pre", "hints")

    def __init__(self, name, kind, hyps, goal, line=None, props=(), info=None):
        self.name, self.kind, self.hyps, self.goal, self.line = name, kind, hyps, goal, line
        self.path_id = None
        self.props = tuple(props)
        self.info = info
        self.pre = None
        self.hints = []


class PathCtx:
    def __init__(self, prefix, feas_rlimit=2_000_000):
        self.prefix = list(prefix)
        self.taken = []
        self.pending = []
        self.pc = []
        self.obligations = []
        self.trace = []  # ghost events
        self.effects = []  # (kind, detail, line)
        self.ghost = {}
        self._n = itertools.count()
        self._solver = z3.Solver()
        self._solver.set("rlimit", feas_rlimit)
        self.notes = []

    # -- symbols
    def fresh(self, base, sort=None):
        name = f"{base}!{next(self._n)}"
        if sort is None or sort == "int":
            return z3.Int(name)
        if sort == "bool":
            return z3.Bool(name)
        return z3.Const(name, sort)

    # -- path condition
    def assume(self, f):
        if f is True:
            return
        if f is False:
            raise PathEnd("assumed false")
        f = to_z3_bool(f)
        if z3.is_and(f):
            for c in f.children():
                self.assume(c)
            return
        self.pc.append(f)
        if not _has_quantifier(f):
            self._solver.add(f)

    def oblige(self, name, goal, kind="post", line=None, props=(), info=None, extra_hyps=(), hints=()):
        if goal is True:
            goal = z3.BoolVal(True)
        elif goal is False:
            goal = z3.BoolVal(False)
        ob = Obligation(name, kind, list(self.pc) + [to_z3_bool(h) for h in extra_hyps], to_z3_bool(goal), line, props, info)
        ob.pre = getattr(self, "pre_roots", None)
        ob.hints = list(hints)
        self.obligations.append(ob)

    def feasible(self, f):
        self._solver.push()
        self._solver.add(f)
        r = self._solver.check()
        self._solver.pop()
        return r != z3.unsat

    def decide(self, cond) -> bool:
        """Branch on a formula.  Concrete conditions do not consume a decision."""
        if isinstance(cond, bool):
            return cond
        cond = z3.simplify(to_z3_bool(cond))
        if z3.is_true(cond):
            return True
        if z3.is_false(cond):
            return False
        i = len(self.taken)
        if i < len(self.prefix):
            choice = self.prefix[i]
        else:
            ft = self.feasible(cond)
            ff = self.feasible(z3.Not(cond))
            if ft and ff:
                choice = True
                self.pending.append(self.taken + [False])
            elif ft:
                choice = True
            elif ff:
                choice = False
            else:
                raise PathEnd("infeasible")
        self.taken.append(choice)
        self.assume(cond if choice else z3.Not(cond))
        return choice

    def choose(self, n, tag="") -> int:
        """n-ary nondeterministic choice (encoded as decisions on fresh booleans)."""
        for k in range(n - 1):
            if self.decide(z3.Bool(f"choose!{tag}!{len(self.taken)}!{k}")):
                return k
        return n - 1

    def event(self, kind, **kw):
        ev = dict(kind=kind, **kw)
        self.trace.append(ev)
        return ev

    def effect(self, kind, detail="", line=None):
        self.effects.append((kind, detail, line))


def _has_quantifier(f):
    seen = set()
    stack = [f]
    while stack:
        e = stack.pop()
        if z3.is_quantifier(e):
            return True
        i = e.get_id()
        if i in seen:
            continue
        seen.add(i)
        stack.extend(e.children())
    return False


# ----------------------------------------------------------------------------------------------
class FuncInfo:
    def __init__(self, node, module, cls_chain, file):
        self.node = node
        self.module = module  # real module object
        self.cls_chain = cls_chain  # names of enclosing classes
        self.file = file
        self.qualname = ".".join(cls_chain + [node.name])
        self.fq = f"{module.__name__}.{self.qualname}"
        self.loops = [n for n in ast.walk(node) if isinstance(n, (ast.For, ast.While))]
        self.loops.sort(key=lambda n: (n.lineno, n.col_offset))

    @property
    def cls_name(self):
        return self.cls_chain[-1] if self.cls_chain else None

    def __repr__(self):
        return f"<Func {self.fq}>"


class SourceIndex:
    """AST of the real source files, re-read on every run."""

    def __init__(self):
        self.funcs = {}  # (module name, qualname) -> FuncInfo
        self.modules = {}
        self.class_nodes = {}

    def add_module(self, module, only=None):
        file = inspect.getsourcefile(module)
        with open(file) as fh:
            tree = ast.parse(fh.read(), filename=file)
        self.modules[module.__name__] = (module, tree, file)

        def walk(body, chain):
            for n in body:
                if isinstance(n, ast.ClassDef):
                    self.class_nodes[(module.__name__, ".".join(chain + [n.name]))] = n
                    walk(n.body, chain + [n.name])
                elif isinstance(n, (ast.FunctionDef,)):
                    fi = FuncInfo(n, module, chain, file)
                    if only is None or fi.qualname in only:
                        key = (module.__name__, fi.qualname)
                        # property setter/getter share a name: keep getter (first) and store setter separately
                        if key in self.funcs:
                            key = (module.__name__, fi.qualname + "#" + str(n.lineno))
                        self.funcs[key] = fi
        walk(tree.body, [])

    def lookup_real(self, fn):
        """real function object -> FuncInfo (or None if not indexed)."""
        fn = getattr(fn, "__func__", fn)
        code = getattr(fn, "__code__", None)
        if code is None:
            return None
        mod = getattr(fn, "__module__", None)
        qn = getattr(fn, "__qualname__", None)
        fi = self.funcs.get((mod, qn))
        if fi is not None and fi.node.lineno != code.co_firstlineno:
            # decorated functions: co_firstlineno is the decorator line
            alt = self.funcs.get((mod, f"{qn}#{code.co_firstlineno}"))
            if alt is not None:
                return alt
            for k, v in self.funcs.items():
                if k[0] == mod and k[1].split("#")[0] == qn:
                    decos = [d.lineno for d in v.node.decorator_list]
                    if code.co_firstlineno in decos + [v.node.lineno]:
                        return v
        return fi

    def by_fq(self, fq):
        for (mod, qn), fi in self.funcs.items():
            if fi.fq == fq and "#" not in qn:
                return fi
        raise CheckerError(f"function {fq} not found in the indexed source (renamed or removed?)")


# ----------------------------------------------------------------------------------------------
class Frame:
    def __init__(self, finfo, locals_):
        self.finfo = finfo
        self.locals = locals_


class World:
    """Everything the interpreter needs to know about the environment: stubs, shapes, contracts."""

    def __init__(self, index: SourceIndex):
        self.index = index
        self.call_stubs = {}  # id(real callable) -> handler(interp, args, kwargs, node)
        self.method_stubs = {}  # (real class, name) -> handler(interp, self, args, kwargs, node)
        self.attr_stubs = {}  # (real class, name) -> handler(interp, self)
        self.shapes = {}  # real class -> {field: T}
        self.contracts = {}  # key (fq or fq#instance) -> Contract: everything that is verified
        self.call_contracts = {}  # fq -> Contract used at call sites (summary of the callee)
        self.modular = set()  # fq names whose calls are replaced by their contract
        self.eq_stubs = {}  # real class -> handler(interp, a, b) -> formula
        self.ignore_calls_on = []  # real objects whose method calls are dropped (loggers)
        self.on_unknown_shape = None

    def stub_call(self, real):
        def deco(fn):
            self.call_stubs[id(real)] = (real, fn)
            return fn
        return deco

    def stub_method(self, cls, name):
        def deco(fn):
            self.method_stubs[(cls, name)] = fn
            return fn
        return deco

    def stub_attr(self, cls, name):
        def deco(fn):
            self.attr_stubs[(cls, name)] = fn
            return fn
        return deco

    def find_method_stub(self, cls, name):
        for c in cls.__mro__:
            h = self.method_stubs.get((c, name))
            if h is not None:
                return h
            # a class that implements the method in the verified source overrides stubs of its (abstract) bases
            f = c.__dict__.get(name)
            f = getattr(f, "__func__", f)
            if isinstance(f, types.FunctionType) and not getattr(f, "__isabstractmethod__", False) \
                    and self.index.lookup_real(f) is not None:
                return None
        return None

    def find_attr_stub(self, cls, name):
        for c in cls.__mro__:
            h = self.attr_stubs.get((c, name))
            if h is not None:
                return h
        return None

    def shape_of(self, cls):
        for c in cls.__mro__:
            if c in self.shapes:
                return self.shapes[c]
        return None


# ----------------------------------------------------------------------------------------------
def clone_graph(roots):
    """Deep copy of the symbolic heap reachable from `roots` (dict name -> value), preserving sharing."""
    memo = {}

    def cp(v):
        if isinstance(v, SObj):
            if id(v) in memo:
                return memo[id(v)]
            n = SObj(v.cls, {}, v.label)
            n.__dict__["oid"] = v.oid
            memo[id(v)] = n
            for k, x in v.f.items():
                n.f[k] = cp(x)
            return n
        if isinstance(v, ListCell):
            if id(v) in memo:
                return memo[id(v)]
            n = ListCell(None)
            memo[id(v)] = n
            n.items = [cp(x) for x in v.items] if isinstance(v.items, list) else v.items
            if getattr(v, "wrap", None) is not None:
                n.wrap = v.wrap
            return n
        if isinstance(v, DictCell):
            if id(v) in memo:
                return memo[id(v)]
            n = DictCell(v.d)
            memo[id(v)] = n
            return n
        if isinstance(v, QueueCell):
            if id(v) in memo:
                return memo[id(v)]
            n = QueueCell(v.base_len, [cp(x) for x in v.appended])
            memo[id(v)] = n
            return n
        if isinstance(v, tuple):
            return tuple(cp(x) for x in v)
        if isinstance(v, SOpt):
            return SOpt(v.isnone, cp(v.val))
        if isinstance(v, list):
            return [cp(x) for x in v]
        if isinstance(v, dict):
            return {k: cp(x) for k, x in v.items()}
        return v

    return {k: cp(v) for k, v in roots.items()}, memo


def local_order(fn_node):
    """names of the local variables of a function in the order of their first binding (parameters excluded)"""
    params = {a.arg for a in fn_node.args.posonlyargs + fn_node.args.args + fn_node.args.kwonlyargs}
    seen, out = set(), []

    class V(ast.NodeVisitor):
        def visit_Name(self, n):
            if isinstance(n.ctx, ast.Store) and n.id not in params and n.id not in seen:
                seen.add(n.id)
                out.append(n.id)

        def visit_FunctionDef(self, n):
            if n is fn_node:
                self.generic_visit(n)

        visit_AsyncFunctionDef = visit_FunctionDef

        def visit_Lambda(self, n):
            pass
    V().visit(fn_node)
    return out


_LOCALS_ORDER = None


def recorded_local_order(fq):
    """the order recorded when the loop specifications were written (contracts/locals_order.json)"""
    global _LOCALS_ORDER
    if _LOCALS_ORDER is None:
        import json
        import os
        p = os.path.join(os.path.dirname(os.path.dirname(os.path.abspath(__file__))), "contracts", "locals_order.json")
        try:
            with open(p) as fh:
                _LOCALS_ORDER = json.load(fh)
        except OSError:
            _LOCALS_ORDER = {}
    return _LOCALS_ORDER.get(fq)


class Roots:
    """attribute-style access to a dict of named root values (contract-side convenience)."""

    def __init__(self, d, trace=None, interp=None):
        self.__dict__["_d"] = d
        self.__dict__["trace"] = trace if trace is not None else []
        self.__dict__["interp"] = interp

    def __getattr__(self, k):
        try:
            return self._d[k]
        except KeyError:
            raise AttributeError(k)

    def __getitem__(self, k):
        return self._d[k]


def isnone(v):
    if v is None:
        return True
    if isinstance(v, SOpt):
        return v.isnone
    return False


def val(v):
    return v.val if isinstance(v, SOpt) else v


# ----------------------------------------------------------------------------------------------
class Interp:
    def __init__(self, ctx: PathCtx, world: World):
        self.ctx = ctx
        self.world = world
        self.depth = 0
        self.call_stack = []
        self.shared_objs = {}  # id(real shared default object) -> SObj
        self.current_line = None
        self.verifying = None  # FuncInfo under verification (calls to it are never replaced by contract at depth 0)
        self.verifying_contract = None
        self.loop_specs = {}
        self.stats = {"calls_inlined": set(), "calls_by_contract": set(), "stubs_used": set(), "assumed": set()}

    # ------------------------------------------------------------------ values
    def fresh_value(self, t, name):
        ctx = self.ctx
        if t is T.Int or isinstance(t, T.Int):
            return z3.Int(name)
        if t is T.Bool or isinstance(t, T.Bool):
            return z3.Bool(name)
        if t is T.Bytes:
            b = SBytes(z3.Const(name, BytesSort))
            ctx.assume(blen(b.b) >= 0)
            return b
        if t is T.Path:
            return SPath(z3.Const(name, PathSort))
        if t is T.Str:
            return SStr(z3.Const(name, StrSort))
        if t is T.Opaque:
            return Opaque(name)
        if t is T.ByteSeq:
            from .values import ByteSeq as _BS
            return z3.Const(name, _BS)
        if t is T.BytesContent:
            from .values import ByteSeq as _BS
            return SBytes(None, z3.Const(name, _BS))
        if t is T.Pair:
            return (z3.Int(name + ".0"), z3.Int(name + ".1"))
        if t is T.IntDict:
            d = SDict.fresh(name)
            ctx.assume(d.n >= 0)  # order/domain consistency (d.wf()) is stated by the invariants that need it
            return DictCell(d)
        if t is T.PairList:
            l = SPairList.fresh(name)
            ctx.assume(l.n >= 0)
            return ListCell(l)
        if isinstance(t, T.ObjList):
            l = SPairList.fresh(name)
            ctx.assume(l.n >= 0)
            cell = ListCell(l)
            cell.wrap = obj_wrapper(t.cls)
            return cell
        if t is T.Queue:
            n = z3.Int(name + ".len")
            ctx.assume(n >= 0)
            return QueueCell(n)
        if isinstance(t, T.Enum):
            e = SEnum(t.cls, z3.Int(name))
            ctx.assume(e.domain())
            return e
        if isinstance(t, T.Opt):
            return SOpt(z3.Bool(name + "?none"), self.fresh_value(t.t, name))
        if isinstance(t, T.Obj):
            return self.fresh_obj(t.cls, name)
        if isinstance(t, T.Shared):
            return self.shared_obj(t.real, name)
        if isinstance(t, T.OneOf):
            n = len(t.classes) + (1 if t.allow_none else 0)
            k = ctx.choose(n, name)
            if k == len(t.classes):
                return None
            return self.fresh_obj(t.classes[k], name)
        raise CheckerError(f"no fresh value for type {t!r} ({name})")

    def fresh_obj(self, cls, name):
        shape = self.world.shape_of(cls)
        if shape is None:
            raise CheckerError(f"no shape for class {cls.__name__} (needed for {name})")
        o = SObj(cls, {}, name)
        for fld, ft in shape.items():
            o.f[fld] = self.fresh_value(ft, f"{name}.{fld}")
        inv = getattr(shape, "invariant", None)
        return o

    def shared_obj(self, real, name):
        if id(real) not in self.shared_objs:
            self.shared_objs[id(real)] = self.fresh_obj(type(real), f"shared:{type(real).__name__}")
        return self.shared_objs[id(real)]

    def havoc(self, obj, field, hint=None):
        """Assign a fresh value of the field's declared type."""
        shape = self.world.shape_of(obj.cls) if isinstance(obj, SObj) else None
        if shape is None or field not in shape:
            raise CheckerError(f"cannot havoc {obj!r}.{field}: no declared type")
        nm = f"hv:{obj.label or obj.cls.__name__}.{field}!{next(self.ctx._n)}"
        obj.f[field] = self.fresh_value(shape[field], nm)

    # ------------------------------------------------------------------ truth
    def truth(self, v):
        """Python truthiness as a formula."""
        if isinstance(v, bool):
            return v
        if v is None:
            return False
        if isinstance(v, z3.BoolRef):
            return v
        if isinstance(v, (int,)):
            return v != 0
        if isinstance(v, z3.ArithRef):
            return v != 0
        if isinstance(v, SEnum):
            return v.e != 0
        if isinstance(v, enum.Enum):
            return bool(v)
        if isinstance(v, SOpt):
            return And_(Not_(v.isnone), self.truth(v.val))
        if isinstance(v, (bytes, str, tuple)):
            return len(v) > 0
        if isinstance(v, SBytes):
            return v.length() > 0
        if isinstance(v, ListCell):
            return len(v.items) > 0 if isinstance(v.items, list) else v.items.n > 0
        if isinstance(v, DictCell):
            return v.d.n > 0
        if isinstance(v, SObj):
            # an instance is truthy unless its class says otherwise: for a class that defines __bool__/__len__, and for an
            # abstract interface whose implementation the user supplies (it may define them), the truth value is unknown
            cls = v.cls if isinstance(v.cls, type) else None
            unknown = False
            if cls is not None:
                unknown = inspect.isabstract(cls) or any(
                    ("__bool__" in vars(k) or "__len__" in vars(k)) for k in cls.__mro__ if k is not object)
            if not unknown:
                return True
            if "_truth" not in v.f:
                v.f["_truth"] = z3.Bool(f"truth!{v.name if hasattr(v, 'name') else 'obj'}!{next(self.ctx._n)}")
            return v.f["_truth"]
        if isinstance(v, (SPath, SStr)):
            return True
        if isinstance(v, Opaque):
            raise Unsupported(f"truth value of opaque {v!r}")
        if isinstance(v, (type, types.FunctionType, types.ModuleType)):
            return True
        raise Unsupported(f"truth value of {v!r}")

    def branch(self, v) -> bool:
        return self.ctx.decide(self.truth(v))

    def force(self, v):
        """Resolve an optional to None or its value by case split."""
        while isinstance(v, SOpt):
            v = None if self.ctx.decide(v.isnone) else v.val
        return v

    # ------------------------------------------------------------------ exceptions
    def throw(self, cls, *args, line=None):
        e = SExc(cls, args, line=line or self.current_line)
        e.origin = self.call_stack[-1].qualname if self.call_stack else None
        raise RaiseSig(e)

    # ------------------------------------------------------------------ function calls
    def call_function(self, finfo: FuncInfo, args, kwargs, bound_cls=None):
        node = finfo.node
        a = node.args
        params = [x.arg for x in a.posonlyargs + a.args]
        locals_ = {}
        if len(args) > len(params) and a.vararg is None:
            raise CheckerError(f"too many positional args for {finfo.fq}")
        for p, v in zip(params, args):
            locals_[p] = v
        for k, v in kwargs.items():
            if k in locals_:
                raise CheckerError(f"duplicate arg {k} for {finfo.fq}")
            locals_[k] = v
        ndef = len(a.defaults)
        fr0 = Frame(finfo, {})
        for i, p in enumerate(params):
            if p not in locals_:
                di = i - (len(params) - ndef)
                if di < 0:
                    raise CheckerError(f"missing arg {p} for {finfo.fq}")
                locals_[p] = self.ev(a.defaults[di], fr0)
        for p, d in zip(a.kwonlyargs, a.kw_defaults):
            if p.arg not in locals_:
                locals_[p.arg] = self.ev(d, fr0)
        fr = Frame(finfo, locals_)
        self.depth += 1
        if self.depth > 60:
            raise CheckerError("call depth exceeded (recursion?)")
        self.call_stack.append(finfo)
        try:
            self.exec_block(node.body, fr)
            return None
        except ReturnSig as r:
            return r.value
        finally:
            self.call_stack.pop()
            self.depth -= 1

    def call_function_slice(self, finfo: FuncInfo, args, stmt_indices):
        """execute only the given top-level statements of the function body (sequential composition is proved
        statement by statement against one mid-condition, see Contract.slice)"""
        node = finfo.node
        a = node.args
        params = [x.arg for x in a.posonlyargs + a.args]
        locals_ = dict(zip(params, args))
        fr = Frame(finfo, locals_)
        body = [st for st in node.body if not (isinstance(st, ast.Expr) and isinstance(st.value, ast.Constant))]
        self.depth += 1
        self.call_stack.append(finfo)
        try:
            for i in stmt_indices:
                if i >= len(body):
                    raise CheckerError(f"{finfo.fq}: slice index {i} beyond the function body ({len(body)} statements)")
                self.exec_stmt(body[i], fr)
            return None
        except ReturnSig as r:
            return r.value
        finally:
            self.call_stack.pop()
            self.depth -= 1

    def construct(self, cls, args, kwargs, node):
        """Instantiate a real class symbolically."""
        w = self.world
        h = w.call_stubs.get(id(cls))
        if h is not None:
            self.stats["stubs_used"].add(cls.__name__)
            return h[1](self, args, kwargs, node)
        if isinstance(cls, type) and issubclass(cls, BaseException):
            return SExc(cls, args, kwargs, line=getattr(node, "lineno", None))
        if isinstance(cls, type) and issubclass(cls, enum.Enum):
            (v,) = args
            return self.enum_from_value(cls, v)
        init = inspect.getattr_static(cls, "__init__", None)
        fi = self.world.index.lookup_real(init) if isinstance(init, types.FunctionType) else None
        if fi is not None:
            o = SObj(cls, {}, cls.__name__)
            self.call_function(fi, [o] + list(args), kwargs)
            return o
        if dataclasses.is_dataclass(cls):
            return self.dataclass_init(cls, args, kwargs)
        if init is object.__init__ and not args and not kwargs:
            return SObj(cls, {}, cls.__name__)
        raise Unsupported(f"constructor of {cls!r} (no stub, no source)")

    def dataclass_init(self, cls, args, kwargs):
        o = SObj(cls, {}, cls.__name__)
        flds = [f for f in dataclasses.fields(cls) if f.init]
        if len(args) > len(flds):
            raise CheckerError(f"too many args for dataclass {cls.__name__}")
        given = dict(zip([f.name for f in flds], args))
        for k, v in kwargs.items():
            if k in given:
                raise CheckerError("duplicate dataclass arg")
            given[k] = v
        for f in dataclasses.fields(cls):
            if f.name in given:
                o.f[f.name] = given[f.name]
            elif f.default is not dataclasses.MISSING:
                o.f[f.name] = self.lift_default(f.default, f"{cls.__name__}.{f.name}")
            elif f.default_factory is not dataclasses.MISSING:
                o.f[f.name] = self.invoke(f.default_factory, [], {}, None)
            else:
                raise CheckerError(f"dataclass {cls.__name__}: missing argument {f.name}")
        post = inspect.getattr_static(cls, "__post_init__", None)
        if post is not None:
            raise Unsupported("__post_init__")
        return o

    def lift_default(self, v, name):
        """A default value evaluated once at class-creation time."""
        if v is None or isinstance(v, (bool, int, str, bytes, enum.Enum, float)):
            return v
        # a mutable default object: one instance shared by every dataclass instance in the process
        return self.shared_obj(v, name)

    def enum_from_value(self, cls, v):
        if isinstance(v, (int, bool)) and not isinstance(v, enum.Enum):
            try:
                return cls(v)
            except ValueError:
                self.throw(ValueError)
        if isinstance(v, enum.Enum):
            return cls(v.value)
        e = SEnum(cls, to_z3_int(v))
        if not self.ctx.decide(e.domain()):
            self.throw(ValueError)
        return e

    def invoke(self, callee, args, kwargs, node):
        w = self.world
        line = getattr(node, "lineno", None)
        if isinstance(callee, BoundMethod):
            return self.invoke_method(callee, args, kwargs, node)
        if isinstance(callee, type):
            return self.construct(callee, args, kwargs, node)
        h = w.call_stubs.get(id(callee))
        if h is not None:
            self.stats["stubs_used"].add(getattr(callee, "__qualname__", repr(callee)))
            return h[1](self, args, kwargs, node)
        if getattr(callee, "__qualname__", "") == "int.from_bytes" and getattr(w, "int_from_bytes", None):
            return w.int_from_bytes(self, args, kwargs, node)
        if isinstance(callee, types.MethodType):
            # bound method of a real object (e.g. classmethod accessed through the class, logger method)
            slf = callee.__self__
            if any(slf is x for x in w.ignore_calls_on):
                return None
            if isinstance(slf, type):
                h = w.find_method_stub(slf, callee.__name__)
                if h is not None:
                    self.stats["stubs_used"].add(f"{slf.__name__}.{callee.__name__}")
                    return h(self, slf, args, kwargs, node)
                fi = w.index.lookup_real(callee.__func__)
                if fi is not None:
                    return self.call_repo(fi, [slf] + list(args), kwargs, node)
            raise Unsupported(f"call of real bound method {callee!r} at line {line}")
        if isinstance(callee, types.FunctionType):
            fi = w.index.lookup_real(callee)
            if fi is not None:
                return self.call_repo(fi, args, kwargs, node)
        raise Unsupported(f"call of {callee!r} at line {line}")

    def invoke_method(self, bm: BoundMethod, args, kwargs, node):
        obj, name = bm.obj, bm.name
        w = self.world
        if isinstance(obj, SObj):
            h = w.find_method_stub(obj.cls, name)
            if h is not None:
                self.stats["stubs_used"].add(f"{obj.cls.__name__}.{name}")
                return h(self, obj, args, kwargs, node)
            fn = bm.func
            fi = w.index.lookup_real(fn) if fn is not None else None
            if fi is not None:
                return self.call_repo(fi, [obj] + list(args), kwargs, node)
            raise Unsupported(f"method {obj.cls.__name__}.{name} (no stub, no source)")
        if isinstance(obj, type):
            h = w.find_method_stub(obj, name)
            if h is not None:
                self.stats["stubs_used"].add(f"{obj.__name__}.{name}")
                return h(self, obj, args, kwargs, node)
            fi = w.index.lookup_real(bm.func) if bm.func is not None else None
            if fi is not None:
                return self.call_repo(fi, [obj] + list(args), kwargs, node)
            raise Unsupported(f"classmethod {obj.__name__}.{name} (no stub, no source)")
        return self.builtin_method(obj, name, args, kwargs, node)

    def call_repo(self, fi: FuncInfo, args, kwargs, node):
        w = self.world
        c = w.call_contracts.get(fi.fq)
        vc = self.verifying_contract
        by_contract = c is not None and fi.fq in w.modular
        if c is not None and vc is not None:
            if fi.qualname in vc.contract_callees or fi.fq in vc.contract_callees:
                by_contract = True
            elif fi.qualname in vc.inline_callees or fi.fq in vc.inline_callees:
                by_contract = False
        if by_contract and not (self.verifying is fi and self.depth == 0):
            self.stats["calls_by_contract"].add(fi.fq)
            return c.apply_at_call(self, fi, args, kwargs, node)
        self.stats["calls_inlined"].add(fi.fq)
        if c is not None and self.depth > 0 and c.check_pre_when_inlined and not c.guard_requires:
            c.oblige_pre_at_call(self, fi, args, kwargs, node)
        return self.call_function(fi, args, kwargs)

    # ------------------------------------------------------------------ attributes
    def getattr_(self, obj, name, node=None):
        ctx = self.ctx
        if isinstance(obj, SOpt):
            obj = self.force(obj)
        if obj is None:
            self.throw(AttributeError, f"None.{name}", line=getattr(node, "lineno", None))
        if isinstance(obj, SObj):
            if name in obj.f:
                v = obj.f[name]
                if isinstance(v, SOpt):
                    v = self.force(v)
                    obj.f[name] = v
                return v
            h = self.world.find_attr_stub(obj.cls, name)
            if h is not None:
                return h(self, obj)
            try:
                static = inspect.getattr_static(obj.cls, name)
            except AttributeError:
                static = None
            if isinstance(static, property):
                fi = self.world.index.lookup_real(static.fget)
                if fi is not None:
                    return self.call_repo(fi, [obj], {}, node)
                raise Unsupported(f"property {obj.cls.__name__}.{name} (no stub, no source)")
            if isinstance(static, types.FunctionType):
                return BoundMethod(obj, name, static)
            if isinstance(static, classmethod):
                return BoundMethod(obj.cls, name, static.__func__)
            if self.world.find_method_stub(obj.cls, name) is not None:
                return BoundMethod(obj, name, None)
            if static is not None and not callable(static):
                return self.lift_default(static, f"{obj.cls.__name__}.{name}")
            self.throw(AttributeError, f"{obj.cls.__name__}.{name}", line=getattr(node, "lineno", None))
        if isinstance(obj, SEnum):
            if name == "value":
                return obj.e
            raise Unsupported(f"attribute {name} of symbolic enum")
        if isinstance(obj, SPath):
            h = getattr(self.world, "spath_attrs", {}).get(name)
            if h is not None:
                return h(self, obj)
        if isinstance(obj, (ListCell, DictCell, QueueCell, SBytes, SPath, SStr, tuple, bytes, str)):
            return BoundMethod(obj, name)
        if isinstance(obj, SExc):
            raise Unsupported("attribute of exception object")
        if isinstance(obj, (type, types.ModuleType, enum.Enum)) or callable(obj) or True:
            # real object: class attribute, module attribute, enum member ...
            if isinstance(obj, type):
                try:
                    static = inspect.getattr_static(obj, name)
                except AttributeError:
                    static = None
                if isinstance(static, classmethod):
                    return BoundMethod(obj, name, static.__func__)
                if isinstance(static, staticmethod):
                    return static.__func__
            try:
                return getattr(obj, name)
            except AttributeError:
                self.throw(AttributeError, f"{obj!r}.{name}")

    def setattr_(self, obj, name, value, node=None):
        if isinstance(obj, SOpt):
            obj = self.force(obj)
        if obj is None:
            self.throw(AttributeError, f"None.{name} = ...", line=getattr(node, "lineno", None))
        if not isinstance(obj, SObj):
            raise Unsupported(f"attribute store on {obj!r}")
        if name not in obj.f:
            static = inspect.getattr_static(obj.cls, name, None)
            if isinstance(static, property):
                if static.fset is None:
                    self.throw(AttributeError, name)
                fi = self.world.index.lookup_real(static.fset)
                if fi is None:
                    raise Unsupported(f"property setter {obj.cls.__name__}.{name}")
                self.call_repo(fi, [obj, value], {}, node)
                return
        obj.f[name] = value

    # ------------------------------------------------------------------ expressions
    def ev(self, n, fr):
        m = getattr(self, "ev_" + type(n).__name__, None)
        if m is None:
            raise Unsupported(f"expression {type(n).__name__} at {fr.finfo.fq}:{getattr(n, 'lineno', '?')}")
        if hasattr(n, "lineno"):
            self.current_line = n.lineno
        return m(n, fr)

    def ev_Constant(self, n, fr):
        return n.value

    def ev_Name(self, n, fr):
        if n.id in fr.locals:
            v = fr.locals[n.id]
            if isinstance(v, SOpt):
                v = self.force(v)
                fr.locals[n.id] = v
            return v
        g = fr.finfo.module.__dict__
        if n.id in g:
            return g[n.id]
        import builtins
        if hasattr(builtins, n.id):
            return getattr(builtins, n.id)
        self.throw(NameError, n.id)

    def mangle(self, name, fr):
        if name.startswith("__") and not name.endswith("__") and fr.finfo.cls_name:
            return "_" + fr.finfo.cls_name.lstrip("_") + name
        return name

    def ev_Attribute(self, n, fr):
        obj = self.ev(n.value, fr)
        return self.getattr_(obj, self.mangle(n.attr, fr), n)

    def ev_Tuple(self, n, fr):
        return tuple(self.ev(e, fr) for e in n.elts)

    def ev_List(self, n, fr):
        return ListCell([self.ev(e, fr) for e in n.elts])

    def ev_Dict(self, n, fr):
        d = SDict.empty()
        cell = DictCell(d)
        for k, v in zip(n.keys, n.values):
            if k is None:
                raise Unsupported("dict unpacking")
            self.dict_update(cell, self.ev(k, fr), self.ev(v, fr))
        return cell

    def ev_JoinedStr(self, n, fr):
        return Opaque("fstring")

    def ev_IfExp(self, n, fr):
        return self.ev(n.body, fr) if self.branch(self.ev(n.test, fr)) else self.ev(n.orelse, fr)

    def ev_BoolOp(self, n, fr):
        is_and = isinstance(n.op, ast.And)
        v = None
        for i, e in enumerate(n.values):
            v = self.ev(e, fr)
            if i == len(n.values) - 1:
                return v
            t = self.branch(v)
            # `a or b` / `a and b` yield the OPERAND that decided, not its truth value (only for a boolean the two coincide)
            if is_and and not t:
                return False if isinstance(v, z3.BoolRef) else (self.force(v) if isinstance(v, SOpt) else v)
            if not is_and and t:
                return True if isinstance(v, z3.BoolRef) else (self.force(v) if isinstance(v, SOpt) else v)
        return v

    def ev_UnaryOp(self, n, fr):
        v = self.ev(n.operand, fr)
        if isinstance(n.op, ast.Not):
            return Not_(self.truth(v))
        if isinstance(n.op, ast.USub):
            return -to_z3_int(v) if is_sym(v) else -v
        raise Unsupported(f"unary {type(n.op).__name__}")

    def ev_BinOp(self, n, fr):
        a, b = self.ev(n.left, fr), self.ev(n.right, fr)
        return self.binop(n.op, a, b, n)

    def binop(self, op, a, b, n=None):
        a, b = self.force(a), self.force(b)
        if a is None or b is None:
            self.throw(TypeError, "arithmetic on None")
        # bytes / list concatenation
        if isinstance(op, ast.Add) and isinstance(a, (bytes, SBytes)) and isinstance(b, (bytes, SBytes)):
            h = self.world.call_stubs.get("bytes_concat")
            if h:
                return h(self, a, b)
            raise Unsupported("bytes concatenation")
        if isinstance(a, (SEnum, enum.IntEnum)):
            a = to_z3_int(a) if isinstance(a, SEnum) else int(a)
        if isinstance(b, (SEnum, enum.IntEnum)):
            b = to_z3_int(b) if isinstance(b, SEnum) else int(b)
        if not (isinstance(a, (int, z3.ArithRef, z3.BoolRef)) and isinstance(b, (int, z3.ArithRef, z3.BoolRef))):
            raise Unsupported(f"binary op {type(op).__name__} on {a!r}, {b!r}")
        sym = is_sym(a) or is_sym(b)
        if sym:
            a, b = to_z3_int(a), to_z3_int(b)
        if isinstance(op, ast.Add):
            return a + b
        if isinstance(op, ast.Sub):
            return a - b
        if isinstance(op, ast.Mult):
            return a * b
        if isinstance(op, (ast.FloorDiv, ast.Mod)):
            if sym:
                if self.ctx.decide(b == 0):
                    self.throw(ZeroDivisionError)
                if not self.ctx.decide(b > 0):
                    raise Unsupported("division by a possibly negative symbolic divisor")
                # b > 0: SMT div/mod are floor div / non-negative mod, as in Python
                return a / b if isinstance(op, ast.FloorDiv) else a % b
            if b == 0:
                self.throw(ZeroDivisionError)
            return a // b if isinstance(op, ast.FloorDiv) else a % b
        if isinstance(op, ast.Pow):
            if not sym:
                return a ** b
            raise Unsupported("symbolic power")
        raise Unsupported(f"binary op {type(op).__name__}")

    def ev_Compare(self, n, fr):
        left = self.ev(n.left, fr)
        res = []
        for op, rn in zip(n.ops, n.comparators):
            right = self.ev(rn, fr)
            res.append(self.compare(op, left, right, n))
            left = right
        return And_(*res)

    def compare(self, op, a, b, n=None):
        if isinstance(op, ast.Is):
            return self.is_(a, b)
        if isinstance(op, ast.IsNot):
            return Not_(self.is_(a, b))
        if isinstance(op, ast.Eq):
            return self.eq(a, b)
        if isinstance(op, ast.NotEq):
            return Not_(self.eq(a, b))
        if isinstance(op, (ast.In, ast.NotIn)):
            r = self.contains(b, a)
            return r if isinstance(op, ast.In) else Not_(r)
        a, b = self.force(a), self.force(b)
        if a is None or b is None:
            self.throw(TypeError, "ordering comparison with None")
        x, y = to_z3_int(a) if is_sym(a) or isinstance(a, SEnum) else a, to_z3_int(b) if is_sym(b) or isinstance(b, SEnum) else b
        if isinstance(x, enum.IntEnum):
            x = int(x)
        if isinstance(y, enum.IntEnum):
            y = int(y)
        if not (isinstance(x, (int, z3.ArithRef)) and isinstance(y, (int, z3.ArithRef))):
            raise Unsupported(f"ordering comparison of {a!r} and {b!r}")
        if isinstance(op, ast.Lt):
            return x < y
        if isinstance(op, ast.LtE):
            return x <= y
        if isinstance(op, ast.Gt):
            return x > y
        if isinstance(op, ast.GtE):
            return x >= y
        raise Unsupported(f"comparison {type(op).__name__}")

    def is_(self, a, b):
        if isinstance(a, SOpt) and b is None:
            return a.isnone
        if isinstance(b, SOpt) and a is None:
            return b.isnone
        if a is None or b is None:
            return a is None and b is None
        if isinstance(a, (SObj, ListCell, DictCell)) or isinstance(b, (SObj, ListCell, DictCell)):
            return a is b
        if isinstance(a, (bool, enum.Enum)) and isinstance(b, (bool, enum.Enum)):
            return a is b
        if isinstance(a, (SEnum, enum.Enum)) and isinstance(b, (SEnum, enum.Enum)):
            return Eq_(a, b)  # enum members are singletons
        raise Unsupported(f"`is` between {a!r} and {b!r}")

    def eq(self, a, b):
        if isinstance(a, SObj) and isinstance(b, SObj) and a is not b:
            for c in a.cls.__mro__:
                h = self.world.eq_stubs.get(c)
                if h is not None:
                    return h(self, a, b)
            if dataclasses.is_dataclass(a.cls) and a.cls is b.cls:
                return And_(*[self.eq(a.f[f.name], b.f[f.name]) for f in dataclasses.fields(a.cls) if f.compare])
            raise Unsupported(f"== between objects of {a.cls.__name__} and {b.cls.__name__}")
        if isinstance(a, SObj) != isinstance(b, SObj):
            o = b if isinstance(a, SObj) else a
            if isinstance(o, SOpt):
                o2 = a if isinstance(a, SObj) else b
                return And_(Not_(o.isnone), self.eq(o2, o.val))
            return False
        if isinstance(a, ListCell) and isinstance(b, ListCell):
            if isinstance(a.items, list) and isinstance(b.items, list):
                if len(a.items) != len(b.items):
                    return False
                return And_(*[self.eq(x, y) for x, y in zip(a.items, b.items)])
            raise Unsupported("== on symbolic lists")
        return Eq_(a, b)

    def contains(self, container, x):
        if isinstance(container, ListCell) and isinstance(container.items, list):
            return Or_(*[self.eq(x, y) for y in container.items])
        if isinstance(container, tuple):
            return Or_(*[self.eq(x, y) for y in container])
        if isinstance(container, DictCell):
            x = self.force(x)
            if isinstance(x, SObj):
                # CPython: key lookup by hash/eq of the object; a model-level decision is needed
                h = self.world.call_stubs.get("obj_in_dict")
                if h:
                    return h(self, container, x)
                raise Unsupported("object key lookup in dict")
            return container.d.dom[to_z3_int(x)]
        raise Unsupported(f"`in` on {container!r}")

    def ev_Subscript(self, n, fr):
        obj = self.ev(n.value, fr)
        if isinstance(n.slice, ast.Slice):
            raise Unsupported("slicing")
        idx = self.ev(n.slice, fr)
        return self.getitem(obj, idx, n)

    def getitem(self, obj, idx, n=None):
        obj = self.force(obj)
        if obj is None:
            self.throw(TypeError, "None is not subscriptable")
        if isinstance(obj, tuple):
            if isinstance(idx, int):
                if -len(obj) <= idx < len(obj):
                    return obj[idx]
                self.throw(IndexError)
            raise Unsupported("symbolic tuple index")
        if isinstance(obj, ListCell):
            if isinstance(obj.items, list):
                if isinstance(idx, int):
                    if -len(obj.items) <= idx < len(obj.items):
                        return obj.items[idx]
                    self.throw(IndexError)
                raise Unsupported("symbolic index into concrete list")
            l = obj.items
            i = to_z3_int(idx)
            if not self.ctx.decide(And_(0 <= i, i < l.n)):
                self.throw(IndexError)
            return (l.a[i], l.b[i])
        if isinstance(obj, DictCell):
            k = to_z3_int(idx)
            if not self.ctx.decide(obj.d.dom[k]):
                self.throw(KeyError)
            return obj.d.val[k]
        raise Unsupported(f"subscript of {obj!r}")

    def ev_Call(self, n, fr):
        # logger calls: dropped without evaluating arguments (documented in DESIGN section 4)
        f = n.func
        if isinstance(f, ast.Attribute) and isinstance(f.value, ast.Name) and f.value.id not in fr.locals:
            tgt = fr.finfo.module.__dict__.get(f.value.id)
            if tgt is not None and any(tgt is x for x in self.world.ignore_calls_on):
                return None
        # super().method(...)
        if (isinstance(f, ast.Attribute) and isinstance(f.value, ast.Call) and isinstance(f.value.func, ast.Name)
                and f.value.func.id == "super" and not f.value.args):
            return self.call_super(f.attr, n, fr)
        callee = self.ev(f, fr)
        args = []
        for a in n.args:
            if isinstance(a, ast.Starred):
                raise Unsupported("*args at call site")
            args.append(self.ev(a, fr))
        kwargs = {}
        for k in n.keywords:
            if k.arg is None:
                raise Unsupported("**kwargs at call site")
            kwargs[k.arg] = self.ev(k.value, fr)
        self.current_line = n.lineno
        return self.invoke(callee, args, kwargs, n)

    def call_super(self, name, n, fr):
        slf = fr.locals.get("self")
        first = slf if slf is not None else fr.locals.get("cls")
        owner_name = fr.finfo.cls_name
        real_cls = first.cls if isinstance(first, SObj) else first
        mro = list(real_cls.__mro__)
        idx = next(i for i, c in enumerate(mro) if c.__name__ == owner_name)
        for c in mro[idx + 1:]:
            if name in c.__dict__:
                fn = c.__dict__[name]
                fn = getattr(fn, "__func__", fn)
                fi = self.world.index.lookup_real(fn)
                if fi is None:
                    raise Unsupported(f"super().{name} resolves outside the indexed source")
                args = [self.ev(a, fr) for a in n.args]
                kwargs = {k.arg: self.ev(k.value, fr) for k in n.keywords}
                return self.call_repo(fi, [first] + args, kwargs, n)
        raise Unsupported(f"super().{name} not found")

    # ------------------------------------------------------------------ builtin container methods
    def dict_update(self, cell: DictCell, k, v):
        d = cell.d
        k, v = to_z3_int(k), to_z3_int(v)
        if self.ctx.decide(d.dom[k]):
            cell.d = SDict(d.dom, z3.Store(d.val, k, v), d.keys, d.pos, d.n)
        else:
            cell.d = SDict(z3.Store(d.dom, k, z3.BoolVal(True)), z3.Store(d.val, k, v), z3.Store(d.keys, d.n, k),
                           z3.Store(d.pos, k, d.n), d.n + 1)

    def dict_reorder(self, d: SDict, name, sorted_=False):
        """same mapping, new (unknown or ascending) enumeration order."""
        I = z3.IntSort()
        keys = z3.Array(f"{name}.keys!{next(self.ctx._n)}", I, I)
        pos = z3.Array(f"{name}.pos!{next(self.ctx._n)}", I, I)
        nd = SDict(d.dom, d.val, keys, pos, d.n)
        self.ctx.assume(nd.wf())
        if sorted_:
            i, j = z3.Int("so!i"), z3.Int("so!j")
            self.ctx.assume(z3.ForAll([i, j], z3.Implies(z3.And(0 <= i, i < j, j < nd.n), keys[i] < keys[j])))
        return nd

    def builtin_method(self, obj, name, args, kwargs, node):
        ctx = self.ctx
        if isinstance(obj, DictCell):
            d = obj.d
            if name == "get":
                k = to_z3_int(self.force(args[0]))
                dflt = args[1] if len(args) > 1 else None
                if dflt is not None:
                    raise Unsupported("dict.get with default")
                return SOpt(z3.Not(d.dom[k]), d.val[k])
            if name == "update":
                (other,) = args
                if not isinstance(other, DictCell):
                    raise Unsupported("dict.update with non-dict")
                od = other.d
                n = z3.simplify(od.n)
                if not z3.is_int_value(n):
                    raise Unsupported("dict.update with symbolic-size dict")
                for i in range(n.as_long()):
                    k = z3.simplify(od.keys[i])
                    self.dict_update(obj, k, z3.simplify(od.val[k]))
                return None
            if name == "pop":
                k = to_z3_int(self.force(args[0]))
                if len(args) > 1:
                    raise Unsupported("dict.pop with default")
                if not ctx.decide(d.dom[k]):
                    self.throw(KeyError)
                v = d.val[k]
                nd = SDict(z3.Store(d.dom, k, z3.BoolVal(False)), d.val, d.keys, d.pos, d.n - 1)
                obj.d = self.dict_reorder(nd, "pop")
                return v
            if name == "clear":
                obj.d = SDict.empty()
                return None
            if name == "items":
                return ("dict_items", obj)
            if name == "keys":
                return ("dict_keys", obj)
            if name == "values":
                return ("dict_values", obj)
        if isinstance(obj, ListCell):
            if name == "append":
                (x,) = args
                if isinstance(obj.items, Opaque):
                    return None  # content not tracked
                if isinstance(obj.items, list):
                    obj.items.append(x)
                else:
                    obj.items = obj.items.append(self.as_pair(x))
                return None
            if name == "clear":
                if not isinstance(obj.items, Opaque):
                    obj.items = []
                return None
            if name == "extend":
                (other,) = args
                other = self.force(other)
                if isinstance(obj.items, Opaque):
                    return None  # content not tracked
                if isinstance(obj.items, list) and isinstance(other, ListCell) and isinstance(other.items, list):
                    obj.items.extend(other.items)
                    return None
                if isinstance(other, Opaque) or isinstance(obj.items, list):
                    obj.items = Opaque("list")  # content no longer tracked
                    return None
                raise Unsupported("list.extend on symbolic lists")
        if isinstance(obj, QueueCell):
            if name == "append":
                obj.appended.append(args[0])
                x = args[0]
                self.ctx.event("pdu", pdu=x.f["pdu"] if isinstance(x, SObj) and "pdu" in x.f else x)
                return None
            if name == "clear":
                obj.base_len = z3.IntVal(0)
                obj.appended = []
                return None
            if name == "popleft":
                h = self.world.call_stubs.get("queue_popleft")
                if h:
                    return h(self, obj)
                raise Unsupported("deque.popleft")
        h = self.world.call_stubs.get(("method", type(obj).__name__, name))
        if h is not None:
            return h(self, obj, args, kwargs, node)
        raise Unsupported(f"method {name} on {obj!r} at line {getattr(node, 'lineno', '?')}")

    def as_pair(self, x):
        if isinstance(x, SObj) and "_pair" in x.f:
            x = x.f["_pair"]
        if isinstance(x, tuple) and len(x) == 2:
            return (to_z3_int(x[0]), to_z3_int(x[1]))
        raise Unsupported(f"symbolic-length lists hold int pairs only, got {x!r}")

    def length(self, v):
        v = self.force(v)
        if isinstance(v, (bytes, str, tuple)):
            return len(v)
        if isinstance(v, SBytes):
            return v.length()
        if isinstance(v, ListCell):
            if isinstance(v.items, list):
                return len(v.items)
            if isinstance(v.items, SPairList):
                return v.items.n
            raise Unsupported("len of untracked list")
        if isinstance(v, DictCell):
            return v.d.n
        if isinstance(v, QueueCell):
            return v.length()
        if isinstance(v, SObj):
            h = self.world.find_method_stub(v.cls, "__len__")
            if h is not None:
                return h(self, v, [], {}, None)
        if v is None:
            self.throw(TypeError, "len(None)")
        raise Unsupported(f"len of {v!r}")

    # ------------------------------------------------------------------ statements
    def exec_block(self, body, fr):
        for s in body:
            self.exec_stmt(s, fr)

    def exec_stmt(self, s, fr):
        self.current_line = s.lineno
        m = getattr(self, "st_" + type(s).__name__, None)
        if m is None:
            raise Unsupported(f"statement {type(s).__name__} at {fr.finfo.fq}:{s.lineno}")
        m(s, fr)

    def st_Pass(self, s, fr):
        pass

    def st_Expr(self, s, fr):
        if isinstance(s.value, ast.Constant):
            return  # docstring
        self.ev(s.value, fr)

    def st_Return(self, s, fr):
        raise ReturnSig(self.ev(s.value, fr) if s.value is not None else None)

    def st_Break(self, s, fr):
        raise BreakSig()

    def st_Continue(self, s, fr):
        raise ContinueSig()

    def assign(self, target, value, fr):
        if isinstance(target, ast.Name):
            fr.locals[target.id] = value
        elif isinstance(target, ast.Attribute):
            obj = self.ev(target.value, fr)
            self.setattr_(obj, self.mangle(target.attr, fr), value, target)
        elif isinstance(target, (ast.Tuple, ast.List)):
            value = self.force(value)
            if not isinstance(value, tuple):
                raise Unsupported(f"unpacking of {value!r}")
            if len(value) != len(target.elts):
                self.throw(ValueError, "unpack length")
            for t, v in zip(target.elts, value):
                self.assign(t, v, fr)
        else:
            raise Unsupported(f"assignment target {type(target).__name__}")

    def st_Assign(self, s, fr):
        v = self.ev(s.value, fr)
        for t in s.targets:
            self.assign(t, v, fr)

    def st_AnnAssign(self, s, fr):
        if s.value is not None:
            self.assign(s.target, self.ev(s.value, fr), fr)

    def st_AugAssign(self, s, fr):
        load = ast.copy_location(type(s.target)(**{k: getattr(s.target, k) for k in s.target._fields}), s.target)
        load.ctx = ast.Load()
        cur = self.ev(load, fr)
        self.assign(s.target, self.binop(s.op, cur, self.ev(s.value, fr), s), fr)

    def st_If(self, s, fr):
        if self.branch(self.ev(s.test, fr)):
            self.exec_block(s.body, fr)
        else:
            self.exec_block(s.orelse, fr)

    def st_Assert(self, s, fr):
        if not self.branch(self.ev(s.test, fr)):
            self.throw(AssertionError, line=s.lineno)

    def st_Raise(self, s, fr):
        if s.exc is None:
            raise Unsupported("bare raise")
        v = self.ev(s.exc, fr)
        if isinstance(v, type) and issubclass(v, BaseException):
            v = SExc(v, (), line=s.lineno)
        if not isinstance(v, SExc):
            raise Unsupported(f"raise of {v!r}")
        v.line = s.lineno
        v.origin = fr.finfo.qualname
        raise RaiseSig(v)

    def st_Try(self, s, fr):
        if s.finalbody:
            raise Unsupported("try/finally")
        try:
            self.exec_block(s.body, fr)
        except RaiseSig as r:
            for h in s.handlers:
                if h.type is None:
                    match = True
                else:
                    t = self.ev(h.type, fr)
                    ts = t if isinstance(t, tuple) else (t,)
                    match = any(issubclass(r.exc.cls, x) for x in ts)
                if match:
                    if h.name:
                        fr.locals[h.name] = r.exc
                    self.exec_block(h.body, fr)
                    return
            raise
        else:
            self.exec_block(s.orelse, fr)

    def st_With(self, s, fr):
        for item in s.items:
            v = self.ev(item.context_expr, fr)
            if item.optional_vars is not None:
                self.assign(item.optional_vars, v, fr)
        self.exec_block(s.body, fr)

    def st_Import(self, s, fr):
        raise Unsupported("import inside function")

    # -- loops
    def loop_spec_for(self, s, fr):
        ordinal = fr.finfo.loops.index(s)
        return self.loop_specs.get((fr.finfo.fq, ordinal))

    def iter_concrete(self, it):
        """Return a python list of items if the iterable has a concrete length, else None."""
        it = self.force(it)
        if isinstance(it, tuple) and len(it) == 2 and it[0] in ("dict_items", "dict_keys", "dict_values"):
            d = it[1].d
            n = z3.simplify(d.n)
            if z3.is_int_value(n):
                out = []
                for i in range(n.as_long()):
                    k = z3.simplify(d.keys[i])
                    out.append({"dict_items": (k, z3.simplify(d.val[k])), "dict_keys": k,
                                "dict_values": z3.simplify(d.val[k])}[it[0]])
                return out
            return None
        if isinstance(it, tuple):
            return list(it)
        if isinstance(it, ListCell):
            if isinstance(it.items, list):
                return list(it.items)
            n = z3.simplify(it.items.n)
            if z3.is_int_value(n):
                return [(z3.simplify(it.items.a[i]), z3.simplify(it.items.b[i])) for i in range(n.as_long())]
            return None
        if it is None:
            self.throw(TypeError, "iteration over None")
        if isinstance(it, Opaque):
            return None
        raise Unsupported(f"iteration over {it!r}")

    def sym_iter_len_item(self, it):
        """(length, item_at(i)) for a symbolic-length iterable."""
        if isinstance(it, tuple) and it[0] in ("dict_items", "dict_keys", "dict_values"):
            d = it[1].d  # snapshot of the mapping at loop entry
            return d.n, {"dict_items": lambda i: (d.keys[i], d.val[d.keys[i]]), "dict_keys": lambda i: d.keys[i],
                         "dict_values": lambda i: d.val[d.keys[i]]}[it[0]]
        if isinstance(it, ListCell) and isinstance(it.items, SPairList):
            l = it.items
            wrap = getattr(it, "wrap", None)
            if wrap is not None:
                return l.n, lambda i: wrap(l.a[i], l.b[i])
            return l.n, lambda i: (l.a[i], l.b[i])
        raise Unsupported(f"symbolic iteration over {it!r}")

    def st_For(self, s, fr):
        if s.orelse:
            raise Unsupported("for/else")
        it = self.ev(s.iter, fr)
        items = self.iter_concrete(it)
        spec = self.loop_spec_for(s, fr)
        if items is not None and spec is None:
            for x in items:
                self.assign(s.target, x, fr)
                try:
                    self.exec_block(s.body, fr)
                except BreakSig:
                    break
                except ContinueSig:
                    continue
            return
        if spec is None:
            raise CheckerError(f"loop at {fr.finfo.fq}:{s.lineno} iterates a symbolic collection and has no invariant")
        it = self.force(it)
        if items is not None:
            # concrete collection but an invariant was supplied: view it as a pair list
            pl = SPairList.empty()
            for x in items:
                pl = pl.append(self.as_pair(x))
            it = ListCell(pl)
        n, item_at = self.sym_iter_len_item(it)
        self.cut_loop(s, fr, spec, n=n, item_at=item_at)

    def st_While(self, s, fr):
        if s.orelse:
            raise Unsupported("while/else")
        spec = self.loop_spec_for(s, fr)
        if spec is None:
            # bounded concrete unrolling only when the condition is concrete
            k = 0
            while True:
                c = self.truth(self.ev(s.test, fr))
                if is_sym(c):
                    raise CheckerError(f"while loop at {fr.finfo.fq}:{s.lineno} has a symbolic condition and no invariant")
                if not c:
                    return
                try:
                    self.exec_block(s.body, fr)
                except BreakSig:
                    return
                except ContinueSig:
                    pass
                k += 1
                if k > 10000:
                    raise CheckerError("runaway concrete loop")
        self.cut_loop(s, fr, spec)

    def local_alias(self, finfo):
        """A loop specification names locals as they were called when it was written.  If the function's locals were renamed
        (same number, same order of first binding) the recorded names are resolved to the current ones, so that a specification
        does not depend on incidental names."""
        rec = recorded_local_order(finfo.fq)
        if not rec:
            return {}
        cur = local_order(finfo.node)
        if rec == cur or len(rec) != len(cur):
            return {}
        return {r: c for r, c in zip(rec, cur) if r != c}

    def cut_loop(self, s, fr, spec, n=None, item_at=None):
        """Replace the loop by its invariant: init obligation; arbitrary iteration; exit."""
        ctx = self.ctx
        name = f"{fr.finfo.fq}::loop@{s.lineno}"
        is_for = n is not None
        alias = self.local_alias(fr.finfo)

        def view(d):   # recorded name -> value of the renamed local
            d = dict(d)
            for r, c in alias.items():
                if r not in d and c in d:
                    d[r] = d[c]
            return Roots(d)
        spec_local_types = {alias.get(k, k): v for k, v in spec.local_types.items()}
        entry_roots = dict(fr.locals)
        entry_snapshot, _ = clone_graph(entry_roots)
        pre = view(entry_snapshot)
        idx0 = z3.IntVal(0)

        def inv_at(idx, label, kind):
            env = view(fr.locals)
            for lbl, f in spec.invariant(self, pre, env, idx, n):
                ctx.oblige(f"{name}::{kind}::{lbl}", f, kind=kind, line=s.lineno, props=spec.props)

        def assume_inv(idx):
            env = view(fr.locals)
            for lbl, f in spec.invariant(self, pre, env, idx, n):
                ctx.assume(f)

        # 1. invariant holds on entry
        inv_at(idx0, "init", "loop-inv-init")
        # 2. havoc what the loop may modify
        assigned = _assigned_names(s)
        for nm in assigned:
            if nm in spec_local_types:
                continue  # declared type: havocked below
            if nm in fr.locals:
                fr.locals[nm] = self.havoc_like(fr.locals[nm], f"lp:{nm}")
        for nm, t in spec_local_types.items():
            fr.locals[nm] = self.fresh_value(t, f"lp:{nm}!{next(ctx._n)}")
        for loc in spec.modifies:
            obj, fld = self.resolve_loc(fr.locals, loc)
            self.havoc(obj, fld)
        idx = ctx.fresh("lp:idx") if is_for else None
        if is_for:
            ctx.assume(z3.And(0 <= idx, idx <= n))
        assume_inv(idx)
        head_snapshot, head_memo = clone_graph(dict(fr.locals))
        n_head_events = len(ctx.trace)
        # 3. does the loop continue?
        if is_for:
            cont = ctx.decide(idx < n)
        else:
            cont = self.branch(self.ev(s.test, fr))
        if not cont:
            # falls through to the code after the loop with inv ∧ ¬cond; what the iterations emitted is
            # summarised by the loop's body_post obligations, the trace only records that a loop ran
            ctx.event("loop_summary", loop=name)
            return
        variant0 = spec.variant(self, view(fr.locals), idx, n) if spec.variant else None
        if is_for:
            self.assign(s.target, item_at(idx), fr)
        try:
            self.exec_block(s.body, fr)
        except BreakSig:
            return  # continues after the loop with the current state
        except ContinueSig:
            pass
        nxt = idx + 1 if is_for else None
        if spec.body_post is not None:
            head = view(head_snapshot)
            for lbl, f in spec.body_post(self, pre, head, view(fr.locals), ctx.trace[n_head_events:], idx):
                ctx.oblige(f"{name}::loop-body::{lbl}", f, kind="loop-body", line=s.lineno, props=spec.props)
        inv_at(nxt, "preserve", "loop-inv-preserve")
        if spec.variant:
            v1 = spec.variant(self, view(fr.locals), nxt, n)
            ctx.oblige(f"{name}::variant", z3.And(variant0 >= 0, v1 < variant0), kind="variant", line=s.lineno,
                       props=spec.props)
        self.check_loop_frame(head_snapshot, fr, spec, name, s.lineno)
        raise PathEnd("loop body verified")

    def havoc_like(self, v, name):
        nm = f"{name}!{next(self.ctx._n)}"
        if isinstance(v, (bool, z3.BoolRef)):
            return z3.Bool(nm)
        if isinstance(v, (int, z3.ArithRef)):
            return z3.Int(nm)
        if isinstance(v, tuple) and all(isinstance(x, (int, z3.ArithRef)) for x in v):
            return tuple(z3.Int(f"{nm}.{i}") for i in range(len(v)))
        if isinstance(v, ListCell):
            return self.fresh_value(T.PairList, nm)
        if isinstance(v, SEnum):
            return self.fresh_value(T.Enum(v.cls), nm)
        if isinstance(v, SOpt):
            return SOpt(z3.Bool(nm + "?none"), self.havoc_like(v.val, nm))
        if v is None:
            raise CheckerError(f"cannot havoc local {name} (value None at loop entry); declare its type in the loop spec")
        raise CheckerError(f"cannot havoc local {name} of value {v!r}; declare its type in the loop spec")

    def resolve_loc(self, roots, loc):
        parts = loc.split(".")
        obj = roots[parts[0]]
        for p in parts[1:-1]:
            if isinstance(obj, SOpt):
                obj = obj.val  # the location only exists when the optional is present
            if obj is None:
                raise CheckerError(f"location {loc} passes through None")
            obj = obj.f[p]
        if isinstance(obj, SOpt):
            obj = obj.val
        if obj is None:
            raise CheckerError(f"location {loc} passes through None")
        return obj, parts[-1]

    def check_loop_frame(self, head_snapshot, fr, spec, name, line):
        allowed = set()
        for loc in spec.modifies:
            obj, fld = self.resolve_loc(fr.locals, loc)
            allowed.add((obj.oid, fld))
        diffs = heap_diff(head_snapshot, dict(fr.locals))
        for oid, fld, what in diffs:
            if (oid, fld) not in allowed and (oid, "*") not in allowed:
                # a frame condition of the loop specification is violated on this path: an obligation that fails, not a checker error
                self.ctx.oblige(f"{name}::loop-frame::{what}", False, kind="frame", line=line, props=spec.props,
                                info=f"loop body modifies {what} which is not in the loop's modifies list")


def _assigned_names(loop):
    out = []
    for n in ast.walk(loop):
        if isinstance(n, ast.Name) and isinstance(n.ctx, ast.Store):
            if n.id not in out:
                out.append(n.id)
    return out


def same_value(a, b):
    if a is b:
        return True
    if is_sym(a) and is_sym(b):
        return a.eq(b)
    if isinstance(a, SEnum) and isinstance(b, SEnum):
        return a.cls is b.cls and a.e.eq(b.e)
    if isinstance(a, SOpt) and isinstance(b, SOpt):
        return a.isnone.eq(b.isnone) and same_value(a.val, b.val)
    if isinstance(a, tuple) and isinstance(b, tuple):
        return len(a) == len(b) and all(same_value(x, y) for x, y in zip(a, b))
    if isinstance(a, SBytes) and isinstance(b, SBytes):
        return (a.b is b.b or (a.b is not None and b.b is not None and a.b.eq(b.b))) and (
            a.seq is b.seq or (a.seq is not None and b.seq is not None and a.seq.eq(b.seq)))
    if isinstance(a, ListCell) and isinstance(b, ListCell):
        if isinstance(a.items, list) and isinstance(b.items, list):
            return len(a.items) == len(b.items) and all(same_value(x, y) for x, y in zip(a.items, b.items))
        return a.items is b.items
    if isinstance(a, SPath) and isinstance(b, SPath):
        return a.p.eq(b.p)
    if isinstance(a, SStr) and isinstance(b, SStr):
        return a.s.eq(b.s)
    if isinstance(a, (SObj,)) and isinstance(b, SObj):
        return a.oid == b.oid
    if isinstance(a, Opaque) and isinstance(b, Opaque):
        return True
    if type(a) is type(b) and isinstance(a, (int, bool, str, bytes, float, enum.Enum)):
        return a == b
    # forced optional: old SOpt vs new concrete -- not a modification
    if isinstance(a, SOpt) and not isinstance(b, SOpt):
        return b is None or same_value(a.val, b)
    return False


def heap_diff(old_roots, new_roots):
    """Fields (by object id) whose value differs syntactically between two graphs.  Objects are matched by oid."""
    old_objs, new_objs = {}, {}

    def collect(v, into, seen):
        if isinstance(v, SObj):
            if v.oid in into:
                return
            into[v.oid] = v
            for x in v.f.values():
                collect(x, into, seen)
        elif isinstance(v, SOpt):
            collect(v.val, into, seen)
        elif isinstance(v, (tuple, list)):
            for x in v:
                collect(x, into, seen)
        elif isinstance(v, ListCell) and isinstance(v.items, list):
            for x in v.items:
                collect(x, into, seen)
        elif isinstance(v, QueueCell):
            for x in v.appended:
                collect(x, into, seen)

    for v in old_roots.values():
        collect(v, old_objs, None)
    for v in new_roots.values():
        collect(v, new_objs, None)
    diffs = []
    for oid, o in old_objs.items():
        n = new_objs.get(oid)
        if n is None:
            continue
        for fld in set(o.f) | set(n.f):
            if fld in GHOST_FIELDS:
                continue
            a, b = o.f.get(fld, _MISSING), n.f.get(fld, _MISSING)
            if a is _MISSING or b is _MISSING:
                diffs.append((oid, fld, f"{o.label or o.cls.__name__}.{fld}"))
                continue
            if isinstance(a, ListCell) and isinstance(b, ListCell):
                if isinstance(a.items, list) and isinstance(b.items, list):
                    if len(a.items) != len(b.items) or not all(same_value(x, y) for x, y in zip(a.items, b.items)):
                        diffs.append((oid, fld, f"{o.label}.{fld}"))
                elif a.items is not b.items:
                    diffs.append((oid, fld, f"{o.label}.{fld}"))
                continue
            if isinstance(a, DictCell) and isinstance(b, DictCell):
                if a.d is not b.d and not (a.d.dom.eq(b.d.dom) and a.d.val.eq(b.d.val) and a.d.keys.eq(b.d.keys) and a.d.n.eq(b.d.n)):
                    diffs.append((oid, fld, f"{o.label}.{fld}"))
                continue
            if isinstance(a, QueueCell) and isinstance(b, QueueCell):
                if not (same_value(a.base_len, b.base_len) and len(a.appended) == len(b.appended)):
                    diffs.append((oid, fld, f"{o.label}.{fld}"))
                continue
            if not same_value(a, b):
                diffs.append((oid, fld, f"{o.label or o.cls.__name__}.{fld}"))
    return diffs


_MISSING = object()
GHOST_FIELDS = {"_options_tlv", "_truth", "_for_entity"}  # memo fields the stubs attach to library objects (not program state)


class LoopSpec:
    def __init__(self, invariant, modifies=(), variant=None, local_types=None, props=(), body_post=None):
        self.body_post = body_post  # (interp, pre, head, env_after, events_of_body, idx) -> [(label, formula)]
        self.invariant = invariant  # (interp, pre, env, idx, n) -> [(label, formula)]
        self.modifies = list(modifies)
        self.variant = variant
        self.local_types = dict(local_types or {})
        self.props = tuple(props)
