"""Per-function verification: explore all paths of the real function under its contract, collect
obligations, discharge them, and return a plain-data report (safe to send across processes)."""
from __future__ import annotations

import shutil
import subprocess
import tempfile
import time
import os

import z3

from .core import (
    Interp, PathCtx, PathEnd, RaiseSig, Roots, clone_graph, heap_diff, Obligation, QueueCell, same_value,
)
from .values import axioms_for, view_hints, CheckerError, Eq_, And_, Not_, Implies_, SObj, SOpt, to_z3_bool, Unsupported, ListCell, DictCell

Z3_RLIMIT = 40_000_000
Z3_TIMEOUT_MS = 120_000
CVC5 = "/usr/bin/cvc5"


class PathResult:
    def __init__(self, pid, decisions, outcome, detail, n_obl, witness=None):
        self.pid, self.decisions, self.outcome, self.detail, self.n_obl, self.witness = pid, decisions, outcome, detail, n_obl, witness


def explore(world, contract, max_paths=4000):
    """Returns (paths, obligations, stats).  Obligations keep z3 terms: same process only."""
    fi = world.index.by_fq(contract.fq)
    work = [[]]
    paths, obligations = [], []
    stats = {"calls_inlined": set(), "calls_by_contract": set(), "stubs_used": set(), "assumed": set()}
    pid = 0
    while work:
        prefix = work.pop()
        ctx = PathCtx(prefix)
        interp = Interp(ctx, world)
        interp.verifying = fi
        interp.verifying_contract = contract
        for ordn, spec in contract.loops.items():
            interp.loop_specs[(fi.fq, ordn)] = spec
        for fq2, c2 in world.contracts.items():
            if c2 is not contract:
                for ordn, spec in c2.loops.items():
                    interp.loop_specs.setdefault((c2.fq, ordn), spec)
        outcome, detail = run_path(interp, fi, contract)
        work.extend(ctx.pending)
        for o in ctx.obligations:
            o.path_id = pid
        obligations.extend(ctx.obligations)
        paths.append(PathResult(pid, list(ctx.taken), outcome, detail, len(ctx.obligations)))
        for k in stats:
            stats[k] |= interp.stats[k]
        pid += 1
        if pid > max_paths:
            raise CheckerError(f"{contract.fq}: more than {max_paths} paths")
    return paths, obligations, stats


def run_path(interp: Interp, fi, contract):
    ctx = interp.ctx
    a = fi.node.args
    params = [x.arg for x in a.posonlyargs + a.args] + [x.arg for x in a.kwonlyargs]
    roots = {}
    try:
        for p in params:
            if p not in contract.arg_types:
                raise CheckerError(f"{contract.fq}: no type for parameter {p}")
            roots[p] = interp.fresh_value(contract.arg_types[p], p)
        if contract.setup:
            contract.setup(interp, roots)
        for label, fn in contract.requires:
            ctx.assume(fn(Roots(roots)))
    except PathEnd as e:
        return "infeasible-pre", e.why
    old, _ = clone_graph(roots)
    o = Roots(old)
    ctx.pre_roots = o
    for lem in contract.pre_lemmas:
        vs = [z3.Int(f"lem!{lem.label}!{i}") for i in range(lem.nvars)]
        body = lem.body(o, *vs)
        hints = lem.hints(o, *vs) if lem.hints else []
        ctx.oblige(f"{fi.fq}::lemma::{lem.label}", body, kind="lemma", props=contract.props, hints=hints)
        ctx.assume(z3.ForAll(vs, body) if vs else body)
    n_pre_events = len(ctx.trace)
    fq = fi.fq
    try:
        if contract.slice is not None:
            body = [st for st in fi.node.body if not (isinstance(st, __import__("ast").Expr) and isinstance(st.value, __import__("ast").Constant))]
            if contract.n_body_statements is not None and len(body) != contract.n_body_statements:
                raise CheckerError(f"{fq}: the function body has {len(body)} top-level statements, the slicing of its "
                                   f"contract expects {contract.n_body_statements} (body restructured: re-derive the slices)")
            result = interp.call_function_slice(fi, [roots[p] for p in params], list(contract.slice[0]) + [contract.slice[1]])
        else:
            result = interp.call_function(fi, [roots[p] for p in params], {})
    except RaiseSig as r:
        exc = r.exc
        n = Roots(roots, ctx.trace[n_pre_events:], interp)
        matched = [rc for rc in contract.raises if issubclass(exc.cls, rc.exc)]
        if not matched:
            # absence of internal errors is property C10's subject (for functions that serve C10 at all)
            sprops = ("C10",) if "C10" in contract.all_props() else contract.props
            ctx.oblige(f"{fq}::safety::no-{exc.cls.__name__}@{exc.origin}", False, kind="safety", line=exc.line,
                       props=sprops, info=f"path raises undeclared {exc.cls.__name__} at line {exc.line}")
        else:
            # the exception must be allowed by at least one clause; each allowing clause's post must hold
            whens = [(rc.when(o) if rc.when is not None else True) for rc in matched]
            from .values import Or_
            ctx.oblige(f"{fq}::raises::{exc.cls.__name__}.allowed@{exc.origin}", Or_(*whens), kind="raises", line=exc.line,
                       props=sum((rc.props for rc in matched), ()))
            for rc, w in zip(matched, whens):
                if rc.post is not None:
                    ctx.oblige(f"{fq}::raises::{rc.label}.post", Implies_(w, rc.post(o, n)), kind="raises",
                               line=exc.line, props=rc.props)
                mods = rc.modifies if rc.modifies is not None else []
                frame_obligations(interp, fq, old, roots, (mods(o) if callable(mods) else mods), rc.props or contract.props,
                                  tag=f"raises.{rc.label}", hyp=w)
        effect_obligations(interp, fq, contract)
        return "raise", f"{exc.cls.__name__}@{exc.line}"
    except PathEnd as e:
        return "ended", e.why
    n = Roots(roots, ctx.trace[n_pre_events:], interp)
    for rc in contract.raises:
        if rc.iff and rc.when is not None:
            ctx.oblige(f"{fq}::raises::{rc.label}.must-raise", Not_(rc.when(o)), kind="raises", props=rc.props)
    for c in contract.ensures:
        extra = []
        for ll, lf in c.lemmas:
            lem = lf(o, n, result)
            if lem is None:
                continue
            ctx.oblige(f"{fq}::post::{c.label}.lemma.{ll}", lem, kind="lemma", props=c.props or contract.props,
                       extra_hyps=extra)
            extra.append(lem)
        ctx.oblige(f"{fq}::post::{c.label}", c.fn(o, n, result), kind="post", props=c.props or contract.props,
                   extra_hyps=extra)
    if contract.emits is not None:
        emits_obligations(interp, fq, contract, o, n, result, ctx.trace[n_pre_events:])
    frame_obligations(interp, fq, old, roots, contract.modifies_list(o), contract.props)
    for cf in contract.cond_frames:
        label, when, mods = cf[:3]
        frame_obligations(interp, fq, old, roots, (mods(o) if callable(mods) else mods), contract.props,
                          tag=label, hyp=when(o))
        if len(cf) > 3 and cf[3].get("silent"):
            ctx.oblige(f"{fq}::post::{label}.silent", Implies_(when(o), len(ctx.trace[n_pre_events:]) == 0), kind="post",
                       props=contract.props)
    effect_obligations(interp, fq, contract)
    return "return", repr(result)[:80]


def frame_obligations(interp, fq, old, roots, modifies, props, tag="frame", hyp=True):
    ctx = interp.ctx
    allowed = set()
    for loc in modifies:
        # a location names a field of an object of the PRE-state (fresh objects may be written freely);
        # the post-state resolution is added too so that `self.x.y` also covers a re-pointed x
        for graph in (old, roots):
            try:
                obj, fld = interp.resolve_loc(graph, loc)
            except (KeyError, CheckerError, AttributeError):
                continue
            if isinstance(obj, SOpt):
                obj = obj.val
            if isinstance(obj, SObj):
                allowed.add((obj.oid, fld))
    for oid, fld, what in heap_diff(old, roots):
        if (oid, fld) in allowed:
            continue
        ctx.oblige(f"{fq}::frame::{what}" + ("" if tag == "frame" else f"[{tag}]"), semantic_equal(old, roots, oid, fld, hyp),
                   kind="frame", props=props)


def _find_obj(roots, oid):
    seen = set()
    stack = list(roots.values())
    while stack:
        v = stack.pop()
        if isinstance(v, SObj):
            if v.oid == oid:
                return v
            if id(v) in seen:
                continue
            seen.add(id(v))
            stack.extend(v.f.values())
        elif isinstance(v, SOpt):
            stack.append(v.val)
        elif isinstance(v, (tuple, list)):
            stack.extend(v)
        elif isinstance(v, ListCell) and isinstance(v.items, list):
            stack.extend(v.items)
        elif isinstance(v, QueueCell):
            stack.extend(v.appended)
    return None


def semantic_equal(old, roots, oid, fld, hyp=True):
    a = _find_obj(old, oid).f.get(fld)
    b = _find_obj(roots, oid).f.get(fld)
    try:
        if isinstance(a, QueueCell) and isinstance(b, QueueCell):
            if len(b.appended) != len(a.appended):
                return Implies_(hyp, False)
            return Implies_(hyp, Eq_(a.base_len, b.base_len))
        if isinstance(a, DictCell) and isinstance(b, DictCell):
            k = z3.Int("fr!k")
            return Implies_(hyp, z3.And(z3.ForAll([k], z3.And(a.d.dom[k] == b.d.dom[k],
                                                            z3.Implies(a.d.dom[k], a.d.val[k] == b.d.val[k]))),
                                       a.d.n == b.d.n))
        if isinstance(a, SObj) or isinstance(b, SObj) or isinstance(a, ListCell) or isinstance(b, ListCell):
            return Implies_(hyp, False)
        return Implies_(hyp, Eq_(a, b))
    except Unsupported:
        return Implies_(hyp, False)


def effect_obligations(interp, fq, contract):
    """effect typing (property C16 for the handler modules): the effects of this path lie within the declared set; one
    obligation per path, plus one (failing) obligation per offending effect"""
    if contract.effects is None:
        return
    props = tuple(contract.props) + (("C16",) if contract.fq.startswith("cfdppy.handler.") and "C16" not in contract.props else ())
    bad = [(k, d, l) for k, d, l in interp.ctx.effects if k not in contract.effects]
    interp.ctx.oblige(f"{fq}::effect::effects_within_{'_'.join(sorted(contract.effects)) or 'none'}", len(bad) == 0, kind="effect",
                      props=props, info=f"effects on this path: {sorted({k for k, _, _ in interp.ctx.effects})}")
    for kind, detail, line in bad:
        interp.ctx.oblige(f"{fq}::effect::{kind}:{detail}@{line}", False, kind="effect", line=line,
                          props=props, info=f"effect {kind} ({detail}) not allowed")


def emits_obligations(interp, fq, contract, o, n, result, events):
    ctx = interp.ctx
    pats = contract.emits(o, n, result)
    evs = [e for e in events if e["kind"] in ("pdu", "ind", "fault_cb", "vfs")]
    kinds_wanted = {p["kind"] for p in pats} | {"pdu"}
    evs = [e for e in events if e["kind"] in kinds_wanted]
    if len(evs) != len(pats):
        ctx.oblige(f"{fq}::post::emits.count", False, kind="post", props=contract.props,
                   info=f"path emits {[_evname(e) for e in evs]}, contract says {[_evname(p) for p in pats]}")
        return
    for i, (e, p) in enumerate(zip(evs, pats)):
        if e["kind"] != p["kind"]:
            ctx.oblige(f"{fq}::post::emits.kind[{i}]", False, kind="post", props=contract.props)
            continue
        if e["kind"] == "pdu":
            obj = e["pdu"]
            if obj.cls is not p["cls"]:
                ctx.oblige(f"{fq}::post::emits.cls[{i}]", False, kind="post", props=contract.props,
                           info=f"emitted {obj.cls.__name__}, contract says {p['cls'].__name__}")
                continue
            for k, v in p.items():
                if k in ("kind", "cls"):
                    continue
                from .spec import _get_path
                ctx.oblige(f"{fq}::post::emits[{i}].{k}", interp.eq(_get_path(obj, k), v), kind="post", props=contract.props)
        else:
            for k, v in p.items():
                if k == "kind":
                    continue
                ctx.oblige(f"{fq}::post::emits[{i}].{k}", interp.eq(e.get(k), v), kind="post", props=contract.props)


def _evname(e):
    if e["kind"] == "pdu":
        c = e.get("cls") or e["pdu"].cls
        return c.__name__
    return e["kind"] + ":" + str(e.get("name", ""))


# ----------------------------------------------------------------------------------------------
def split_goal(hyps, goal, depth=0):
    """Split a goal into simpler sub-goals (all must hold): conjunctions, case analysis on a
    disjunctive antecedent, and the two directions of a quantified Boolean equivalence."""
    if depth > 6:
        return [(hyps, goal)]
    if z3.is_and(goal):
        out = []
        for c in goal.children():
            out += split_goal(hyps, c, depth + 1)
        return out
    if z3.is_implies(goal):
        a, g = goal.children()
        if z3.is_or(a):
            out = []
            for d in a.children():
                out += split_goal(hyps, z3.Implies(d, g), depth + 1)
            return out
        if z3.is_and(g) or z3.is_implies(g) or (z3.is_quantifier(g) and g.is_forall()):
            return split_goal(hyps + [a], g, depth + 1)
        return [(hyps + [a], g)]
    if z3.is_quantifier(goal) and goal.is_forall():
        body = goal.body()
        if z3.is_eq(body) and z3.is_bool(body.arg(0)):
            vs = [z3.Const(goal.var_name(i) + "!sk%d" % depth, goal.var_sort(i)) for i in range(goal.num_vars())]
            inst = z3.substitute_vars(body, *reversed(vs))
            l, r = inst.arg(0), inst.arg(1)
            return split_goal(hyps, z3.Implies(l, r), depth + 1) + split_goal(hyps, z3.Implies(r, l), depth + 1)
        if z3.is_and(body) or z3.is_implies(body):
            vs = [z3.Const(goal.var_name(i) + "!sk%d" % depth, goal.var_sort(i)) for i in range(goal.num_vars())]
            inst = z3.substitute_vars(body, *reversed(vs))
            return split_goal(hyps, inst, depth + 1)
    return [(hyps, goal)]


_sym_cache = {}


def symbols_of(e):
    """names of uninterpreted constants/functions occurring in a term (cached by ast id)."""
    i = e.get_id()
    if i in _sym_cache:
        return _sym_cache[i][1]
    out = set()
    seen = set()
    stack = [e]
    while stack:
        x = stack.pop()
        xi = x.get_id()
        if xi in seen:
            continue
        seen.add(xi)
        if z3.is_quantifier(x):
            stack.append(x.body())
        elif z3.is_app(x):
            d = x.decl()
            if d.kind() == z3.Z3_OP_UNINTERPRETED:
                out.add(d.name())
            stack.extend(x.children())
    _sym_cache[i] = (e, out)  # keep the term alive: z3 recycles ast ids of freed terms
    return out


def cone_of_influence(hyps, goal):
    """keep only hypotheses connected to the goal through shared uninterpreted symbols (sound: fewer
    hypotheses can only make a proof harder; a counter-model of the reduced query extends to the
    dropped hypotheses because they share no symbol with it)."""
    hs = [(h, symbols_of(h)) for h in hyps]
    rel = set(symbols_of(goal))
    for ax in axioms_for([goal]):
        rel |= symbols_of(ax)
    keep = [False] * len(hs)
    changed = True
    while changed:
        changed = False
        for k, (h, sy) in enumerate(hs):
            if keep[k]:
                continue
            if not sy or (sy & rel):
                keep[k] = True
                if not sy <= rel:
                    rel |= sy
                    for ax in axioms_for([h]):
                        rel |= symbols_of(ax)
                    changed = True
    return [h for k, (h, _) in enumerate(hs) if keep[k]]


PORTFOLIO = [({}, 3_000_000)] + [({"smt.random_seed": sd}, 6_000_000) for sd in (7, 13, 29, 41, 53, 67, 79, 97)] + [
    ({"smt.random_seed": 3}, 40_000_000), ({"smt.random_seed": 11}, 40_000_000)]


def _z3_check(hyps, goal, cfg, rlimit, hints=()):
    s = z3.Solver()
    s.set("rlimit", rlimit)
    s.set("timeout", Z3_TIMEOUT_MS)
    for k, v in cfg.items():
        s.set(k, v)
    for h in hyps:
        s.add(h)
    s.add(z3.Not(goal))
    for ax in axioms_for(list(hyps) + [goal] + list(hints)):
        s.add(ax)
    for i, t in enumerate(list(hints) + view_hints(hyps, goal)):
        s.add(z3.Bool(f"hint!{i}") == t)  # puts the ground term into the e-graph
    r = s.check()
    return r, s


def discharge(ob: Obligation, rlimit=Z3_RLIMIT, use_cvc5=True, light=False):
    """-> (verdict, backend, seconds, model_or_reason)   verdict in {'unsat','sat','unknown'}"""
    t0 = time.time()
    if z3.is_true(z3.simplify(ob.goal)):
        return "unsat", "simplify", time.time() - t0, None
    parts = split_goal(list(ob.hyps), ob.goal)
    backend_used = "z3"
    hyp_ids = {h.get_id() for h in ob.hyps}
    for full_hyps, goal in parts:
        seq_tried = False
        # stage 0: the goal is literally one of the hypotheses (unchanged invariant conjunct)
        if goal.get_id() in hyp_ids or any(goal.get_id() == h.get_id() for h in full_hyps[len(ob.hyps):]):
            backend_used = backend_used if backend_used != "z3" else "z3"
            continue
        if _mentions_seq(goal):
            # byte-sequence goals: external solvers only (hard time limits; z3's in-process sequence solver can ignore
            # its resource limit): cvc5 first, then the z3 binary
            s0 = z3.Solver()
            for h in full_hyps:
                s0.add(h)
            s0.add(z3.Not(goal))
            for ax in axioms_for(list(full_hyps) + [goal]):
                s0.add(ax)
            smt2 = s0.to_smt2()
            v, why = run_cvc5(smt2, timeout_s=25) if use_cvc5 else ("unknown", "")
            if v == "unsat":
                backend_used = "cvc5"
                continue
            v2, why2 = ("unknown", "") if light else run_z3_cli(smt2, timeout_s=20)
            if v2 == "unsat":
                backend_used = "z3-cli"
                continue
            if "sat" in (v, v2):
                return "sat", "cvc5" if v == "sat" else "z3-cli", time.time() - t0, {
                    "_note": "external solver answered sat; no model extracted", "_subgoal": str(goal)[:300]}
            return "unknown", "cvc5+z3-cli", time.time() - t0, {"_reason": f"cvc5: {why}; z3: {why2}", "_subgoal": str(goal)[:300]}
        # stage 1: cone-of-influence reduced query (fast; proves most goals, gives clean counter-models)
        reduced = cone_of_influence(full_hyps, goal)
        reduced_model = None
        if len(reduced) < len(full_hyps):
            r, s = _z3_check(reduced, goal, {}, 3_000_000, ob.hints)
            if r == z3.unsat:
                continue
            if r == z3.sat:
                reduced_model = model_to_dict(s.model())
                # the dropped hypotheses share no symbol with the query, so the counter-model extends to
                # them unless they are contradictory by themselves: check their quantifier-free part
                from .core import _has_quantifier
                qf = [h for h in full_hyps if not _has_quantifier(h)]
                r2, s2 = _z3_check(qf, goal, {}, 3_000_000, ob.hints)
                if r2 == z3.unsat:
                    continue
                if r2 == z3.sat:
                    m = model_to_dict(s2.model())
                    m["_subgoal"] = str(goal)[:300]
                    if len(qf) == len(full_hyps):
                        return "sat", "z3", time.time() - t0, m
                    # quantified hypotheses were left out: only the full query decides (stage 2); keep the model
                    m["_note"] = "counter-model of the query without its quantified hypotheses"
                    reduced_model = m
        # sequence (byte string) goals: cvc5 decides the slicing/concatenation lemmas that z3's seq solver does not
        if use_cvc5 and not light and _mentions_seq(goal):
            s0 = z3.Solver()
            for h in full_hyps:
                s0.add(h)
            s0.add(z3.Not(goal))
            for ax in axioms_for(list(full_hyps) + [goal]):
                s0.add(ax)
            v, why = run_cvc5(s0.to_smt2(), timeout_s=25)
            if v == "unsat":
                backend_used = "cvc5"
                continue
            seq_tried = True
        # stage 2: all hypotheses, solver portfolio
        verdict = None
        last = None
        for cfg, rl in (PORTFOLIO[:2] if (light or _mentions_seq(goal)) else PORTFOLIO):
            r, s = _z3_check(full_hyps, goal, cfg, rl, ob.hints)
            last = s
            if r == z3.unsat:
                verdict = "unsat"
                break
            if r == z3.sat:
                m = model_to_dict(s.model())
                m["_subgoal"] = str(goal)[:300]
                return "sat", "z3", time.time() - t0, m
            if reduced_model is not None and rl >= 6_000_000:
                break  # the reduced query already has a counter-model; do not burn the whole portfolio
        if verdict == "unsat":
            continue
        reason = last.reason_unknown()
        if use_cvc5 and reduced_model is None and not light and not seq_tried:
            v, why = run_cvc5(last.to_smt2())
            if v == "unsat":
                backend_used = "z3+cvc5"
                continue
            if v == "sat":
                return "sat", "cvc5", time.time() - t0, {"_note": "cvc5 sat; no model extracted", "_z3_reason": reason}
            reason += f"; cvc5: {why}"
        if reduced_model is not None:
            reduced_model["_note"] = ("counter-model of the cone-of-influence-reduced query; the full query (with "
                                      "quantified hypotheses) is undecided: " + reason)
            return "sat", "z3", time.time() - t0, reduced_model
        return "unknown", "z3+cvc5" if use_cvc5 else "z3", time.time() - t0, {"_reason": reason, "_subgoal": str(goal)[:300]}
    return "unsat", backend_used, time.time() - t0, None


def _conjuncts(g, depth=0):
    if z3.is_and(g) and depth < 4:
        out = []
        for c in g.children():
            out += _conjuncts(c, depth + 1)
        return out
    return [g]


def discharge_batches(obligations, rlimit=1_500_000):
    """Fast path: obligations generated at the same program point share their hypotheses; assert those once in an
    incremental solver and check each goal under push/pop.  Only `unsat` answers are used (sound: same query as
    discharge() without goal splitting); everything else goes through the full pipeline."""
    groups = {}
    out = {}
    for ob in obligations:
        # stage 0: every top-level conjunct of the goal is literally one of the hypotheses (an invariant conjunct that
        # the code did not touch): nothing to solve; otherwise only the remaining conjuncts are kept as the goal
        t0 = time.time()
        hyp_ids = {h.get_id() for h in ob.hyps}
        rest = [g for g in _conjuncts(ob.goal) if g.get_id() not in hyp_ids and not z3.is_true(g)]
        if not rest:
            out[id(ob)] = time.time() - t0
            continue
        if len(rest) < len(_conjuncts(ob.goal)):
            ob.goal = z3.And(*rest) if len(rest) > 1 else rest[0]
        key = (ob.path_id, len(ob.hyps), ob.hyps[-1].get_id() if ob.hyps else 0)
        groups.setdefault(key, []).append(ob)
    for key, obs in groups.items():
        if len(obs) < 3:
            continue
        s = z3.Solver()
        s.set("rlimit", rlimit)
        s.set("timeout", 20_000)
        hyps = obs[0].hyps
        if any(len(o.hyps) != len(hyps) or any(a.get_id() != b.get_id() for a, b in zip(o.hyps, hyps)) for o in obs[1:]):
            continue
        for h in hyps:
            s.add(h)
        goals = [o.goal for o in obs]
        for ax in axioms_for(list(hyps) + goals):
            s.add(ax)
        for o in obs:
            if o.hints:
                continue
            t0 = time.time()
            g = z3.simplify(o.goal)
            if z3.is_true(g):
                out[id(o)] = time.time() - t0
                continue
            s.push()
            s.add(z3.Not(o.goal))
            try:
                r = s.check()
            except z3.Z3Exception:
                r = z3.unknown
            s.pop()
            if r == z3.unsat:
                out[id(o)] = time.time() - t0
    return out


def run_z3_cli(smt2: str, timeout_s=20):
    exe = shutil.which("z3-new") or "/usr/bin/z3"
    with tempfile.NamedTemporaryFile("w", suffix=".smt2", delete=False, dir=os.environ.get("PYVC_WORK", None)) as fh:
        fh.write(smt2)
        path = fh.name
    try:
        p = subprocess.run([exe, f"-T:{timeout_s}", path], capture_output=True, text=True, timeout=timeout_s + 15)
        out = p.stdout.strip().splitlines()
        v = out[0].strip() if out else "unknown"
        return (v, "") if v in ("sat", "unsat") else ("unknown", (p.stdout + p.stderr).strip()[:120])
    except subprocess.TimeoutExpired:
        return "unknown", "z3 timeout"
    finally:
        try:
            os.unlink(path)
        except OSError:
            pass


_seq_cache = {}


def _mentions_seq(e):
    i = e.get_id()
    if i in _seq_cache:
        return _seq_cache[i][1]
    seen, stack, found = set(), [e], False
    while stack and not found:
        x = stack.pop()
        if x.get_id() in seen:
            continue
        seen.add(x.get_id())
        try:
            if z3.is_seq(x):
                found = True
                break
        except Exception:
            pass
        if z3.is_quantifier(x):
            stack.append(x.body())
        elif z3.is_app(x):
            stack.extend(x.children())
    _seq_cache[i] = (e, found)
    return found


def run_cvc5(smt2: str, timeout_s=60):
    with tempfile.NamedTemporaryFile("w", suffix=".smt2", delete=False, dir=os.environ.get("PYVC_WORK", None)) as fh:
        fh.write("(set-logic ALL)\n" + smt2)
        path = fh.name
    try:
        p = subprocess.run([CVC5, "--strings-exp", f"--tlimit={timeout_s * 1000}", path], capture_output=True, text=True,
                           timeout=timeout_s + 10)
        out = p.stdout.strip().splitlines()
        v = out[0].strip() if out else "unknown"
        if v not in ("sat", "unsat"):
            return "unknown", (p.stdout + p.stderr).strip()[:200]
        return v, ""
    except subprocess.TimeoutExpired:
        return "unknown", "cvc5 timeout"
    finally:
        try:
            os.unlink(path)
        except OSError:
            pass


def model_to_dict(m):
    out = {}
    for d in m.decls():
        if d.arity() == 0:
            v = m[d]
            try:
                if z3.is_int_value(v):
                    out[d.name()] = v.as_long()
                elif z3.is_true(v):
                    out[d.name()] = True
                elif z3.is_false(v):
                    out[d.name()] = False
                else:
                    out[d.name()] = str(v)[:200]
            except Exception:
                out[d.name()] = str(v)[:200]
    return out


def verify_function(world, contract, use_cvc5=True, known=(), only_prop=None, part=None, ob_filter=None):
    """Full per-function run. Returns a JSON-able dict."""
    import re
    t0 = time.time()
    fi = world.index.by_fq(contract.fq)
    paths, obligations, stats = explore(world, contract)
    try:
        from contracts.findings import FINDING_CLASSES
    except ImportError:
        FINDING_CLASSES = {}
    results = {}
    backends = {}
    solver_time = 0.0
    n_all = len(obligations)
    if only_prop is not None:
        obligations = [ob for ob in obligations if only_prop in ob.props]
    if ob_filter is not None:
        obligations = [ob for ob in obligations if ob_filter(ob)]
    if part is not None:  # (i, n): this worker discharges every n-th obligation (the exploration is repeated per worker)
        obligations = [ob for k, ob in enumerate(obligations) if k % part[1] == part[0]]
    pre_verdicts = discharge_batches(obligations)
    failed_names = set()
    for ob in obligations:
        if id(ob) in pre_verdicts:
            verdict, backend, dt, model = "unsat", "z3", pre_verdicts[id(ob)], None
        else:
            # once an obligation has failed on one path, its other path instances get the light portfolio only
            verdict, backend, dt, model = discharge(ob, use_cvc5=use_cvc5, light=ob.name in failed_names)
            if verdict != "unsat":
                failed_names.add(ob.name)
        solver_time += dt
        backends.setdefault(backend, [0, 0.0])
        backends[backend][0] += 1
        backends[backend][1] += dt
        r = results.setdefault(ob.name, {"name": ob.name, "kind": ob.kind, "props": list(ob.props), "line": ob.line,
                                         "instances": 0, "discharged": 0, "failed": [], "backends": {}})
        r["instances"] += 1
        for p in ob.props:
            if p not in r["props"]:
                r["props"].append(p)
        r["backends"][backend] = r["backends"].get(backend, 0) + 1
        if verdict == "unsat":
            r["discharged"] += 1
        else:
            rec = {"path": ob.path_id, "verdict": verdict, "model": model, "info": ob.info,
                   "decisions": paths[ob.path_id].decisions}
            # is this exactly a recorded known finding?  re-prove with the finding's input class excluded
            for k in known:
                if not re.search(k["obligation"], ob.name):
                    continue
                cls = FINDING_CLASSES.get(k["id"])
                if cls is None or ob.pre is None:
                    continue
                try:
                    excl = cls(ob.pre)
                except Exception as e:  # class predicate not applicable to this function's pre-state
                    continue
                ob2 = Obligation(ob.name, ob.kind, list(ob.hyps) + [z3.Not(to_z3_bool(excl))], ob.goal, ob.line, ob.props)
                v2, b2, dt2, _ = discharge(ob2, use_cvc5=use_cvc5)
                solver_time += dt2
                if v2 == "unsat":
                    rec["known"] = k["id"]
                    break
            r["failed"].append(rec)
    return {
        "function": contract.key,
        "file": os.path.relpath(fi.file, "/"),
        "line": fi.node.lineno,
        "paths": len(paths),
        "feasible_paths": sum(1 for p in paths if p.outcome in ("return", "raise")),
        "needs_return_path": bool(contract.ensures) and not contract.never_returns,
        "return_paths": sum(1 for p in paths if p.outcome == "return"),
        "dead_ends": [p.detail for p in paths if p.outcome in ("ended", "infeasible-pre") and p.detail != "loop body verified"][:10],
        "path_outcomes": _count([p.outcome for p in paths]),
        "path_details": [(p.outcome, p.detail) for p in paths][:40],
        "obligations": list(results.values()),
        "n_obligation_instances": len(obligations),
        "n_obligation_instances_all_properties": n_all,
        "solver_time_s": round(solver_time, 3),
        "wall_s": round(time.time() - t0, 3),
        "backends": {k: {"count": v[0], "time_s": round(v[1], 3)} for k, v in backends.items()},
        "inlined": sorted(stats["calls_inlined"]),
        "by_contract": sorted(stats["calls_by_contract"]),
        "assumed": sorted(stats["assumed"]),
        "stubs": sorted(stats["stubs_used"]),
    }


def _count(xs):
    d = {}
    for x in xs:
        d[x] = d.get(x, 0) + 1
    return d
