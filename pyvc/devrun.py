import sys, json, time
from stubs.world import build_world
from pyvc.driver import verify_function

def main():
    w = build_world()
    pats = sys.argv[1:]
    verbose = "-v" in pats
    pats = [p for p in pats if p not in ("-v", "-m")]
    only = None
    for p in list(pats):
        if p.startswith("--prop="):
            only = p.split("=", 1)[1]
            pats.remove(p)
    for fq, c in w.contracts.items():
        if pats and not any(p in fq for p in pats):
            continue
        t = time.time()
        try:
            rep = verify_function(w, c, only_prop=only)
        except Exception as e:
            import traceback; traceback.print_exc()
            print("CHECKER-ERROR", fq, e)
            continue
        nob = len(rep["obligations"]); bad = [o for o in rep["obligations"] if o["discharged"] != o["instances"]]
        print(f"{fq}: paths={rep['paths']} {rep['path_outcomes']} obligations={nob} failed={len(bad)} solver={rep['solver_time_s']}s wall={rep['wall_s']}s")
        if verbose:
            for o in rep["obligations"]:
                print("   ", "OK " if o["discharged"] == o["instances"] else "FAIL", o["name"], f"x{o['instances']}", o["backends"])
        for o in bad:
            print("   FAIL", o["name"], f"{o['discharged']}/{o['instances']}")
            for f in o["failed"][:2]:
                m = f["model"] or {}
                print("      path", f["path"], f["verdict"], f["info"] or "", "SUBGOAL:", str(m.get("_subgoal"))[:200].replace("\n", " "), "known=" + str(f.get("known")))
                if "-m" in sys.argv:
                    print("         ", {k: v for k, v in list(m.items())[:40] if not k.startswith("_")})

main()
