"""Models of the Python builtins the verified code uses."""
from __future__ import annotations

import builtins
import enum

import z3

from pyvc.core import T, QueueCell
from pyvc.values import (
    And_, CheckerError, DictCell, Ite_, ListCell, Not_, Opaque, SBytes, SDict, SEnum, SObj, SOpt, SPairList, SPath,
    SStr, Unsupported, is_sym, to_z3_int,
)


def install(world):
    @world.stub_call(builtins.len)
    def _len(I, args, kwargs, node):
        (v,) = args
        return I.length(v)

    def _fold(I, args, kwargs, pick_first, concrete):
        if kwargs or len(args) < 2:
            raise Unsupported("min/max of an iterable or with key/default")
        vals = [I.force(x) for x in args]
        if not any(is_sym(v) for v in vals):
            return concrete(*vals)
        acc = to_z3_int(vals[0])
        for v in vals[1:]:
            v = to_z3_int(v)
            acc = z3.If(pick_first(acc, v), acc, v)   # on a tie the earlier argument wins, as in CPython
        return acc

    @world.stub_call(builtins.max)
    def _max(I, args, kwargs, node):
        return _fold(I, args, kwargs, lambda a, b: a >= b, max)

    @world.stub_call(builtins.min)
    def _min(I, args, kwargs, node):
        return _fold(I, args, kwargs, lambda a, b: a <= b, min)

    @world.stub_call(builtins.range)
    def _range(I, args, kwargs, node):
        vals = [I.force(x) for x in args]
        if kwargs or any(is_sym(v) for v in vals):
            raise Unsupported("range() with symbolic bounds (the repository iterates collections, not ranges)")
        return tuple(range(*vals))   # an immutable concrete sequence: iterated by unrolling

    @world.stub_call(builtins.pow)
    def _pow(I, args, kwargs, node):
        if all(isinstance(x, int) for x in args):
            return pow(*args)
        raise Unsupported("symbolic pow")

    @world.stub_call(builtins.isinstance)
    def _isinstance(I, args, kwargs, node):
        v, c = args
        v = I.force(v)
        cs = c if isinstance(c, tuple) else (c,)
        if isinstance(v, SObj):
            return any(issubclass(v.cls, x) for x in cs)
        if isinstance(v, SPath):
            import pathlib
            return any(issubclass(pathlib.PurePath, x) or issubclass(pathlib.Path, x) for x in cs)
        if v is None:
            return any(x is type(None) for x in cs)
        if isinstance(v, (int, str, bytes, bool, enum.Enum)):
            return isinstance(v, cs)
        if isinstance(v, z3.ArithRef):
            return int in cs
        if isinstance(v, SBytes):
            return bytes in cs or bytearray in cs
        if isinstance(v, SEnum):
            return any(issubclass(v.cls, x) for x in cs)
        raise Unsupported(f"isinstance of {v!r}")

    @world.stub_call(builtins.sorted)
    def _sorted(I, args, kwargs, node):
        (it,) = args
        if kwargs:
            raise Unsupported("sorted with key")
        if isinstance(it, tuple) and it and it[0] == "dict_items":
            return ("sorted_items", DictCell(it[1].d))
        raise Unsupported(f"sorted of {it!r}")

    @world.stub_call(builtins.list)
    def _list(I, args, kwargs, node):
        if not args:
            return ListCell([])
        (it,) = args
        if isinstance(it, tuple) and it and it[0] in ("dict_items", "dict_keys", "dict_values"):
            return (it[0], DictCell(it[1].d))  # snapshot
        if isinstance(it, ListCell):
            return ListCell(list(it.items) if isinstance(it.items, list) else it.items)
        raise Unsupported(f"list() of {it!r}")

    @world.stub_call(builtins.dict)
    def _dict(I, args, kwargs, node):
        if not args:
            return DictCell(SDict.empty())
        (it,) = args
        if isinstance(it, tuple) and it and it[0] == "sorted_items":
            return DictCell(I.dict_reorder(it[1].d, "sorted", sorted_=True))
        if isinstance(it, tuple) and it and it[0] == "dict_items":
            return DictCell(it[1].d)
        if isinstance(it, ListCell):
            return dict_from_pairs(I, it)
        raise Unsupported(f"dict() of {it!r}")

    @world.stub_call(builtins.iter)
    def _iter(I, args, kwargs, node):
        (it,) = args
        return ("iter", it)

    @world.stub_call(builtins.next)
    def _next(I, args, kwargs, node):
        (it,) = args
        if isinstance(it, tuple) and it[0] == "iter":
            src = it[1]
            if isinstance(src, tuple) and src[0] == "dict_items":
                d = src[1].d
                if not I.ctx.decide(d.n > 0):
                    I.throw(StopIteration)
                return (d.keys[0], d.val[d.keys[0]])
        raise Unsupported(f"next() of {it!r}")


def dict_from_pairs(I, cell: ListCell):
    """dict(list_of_pairs): first position, last value of a repeated key."""
    items = cell.items
    if isinstance(items, list):
        out = DictCell(SDict.empty())
        for p in items:
            k, v = I.as_pair(p)
            I.dict_update(out, k, v)
        return out
    L = items  # SPairList
    n = next(I.ctx._n)
    name = f"dictof!{n}"
    d = SDict.fresh(name)
    ctx = I.ctx
    Int = z3.IntSort()
    last = z3.Function(f"{name}.last", Int, Int)
    first = z3.Function(f"{name}.first", Int, Int)
    k, j, k2 = z3.Int("df!k"), z3.Int("df!j"), z3.Int("df!k2")
    ctx.assume(d.wf())
    # every listed key is in the domain
    ctx.assume(z3.ForAll([j], z3.Implies(z3.And(0 <= j, j < L.n), d.dom[L.a[j]])))
    # every key of the domain is listed; its value is that of its last occurrence; first(k) is its first one
    ctx.assume(z3.ForAll([k], z3.Implies(d.dom[k], z3.And(
        0 <= last(k), last(k) < L.n, L.a[last(k)] == k, d.val[k] == L.b[last(k)],
        0 <= first(k), first(k) <= last(k), L.a[first(k)] == k))))
    ctx.assume(z3.ForAll([k, j], z3.Implies(z3.And(d.dom[k], 0 <= j, j < L.n, L.a[j] == k),
                                            z3.And(first(k) <= j, j <= last(k)))))
    # order of the result = order of first occurrences
    ctx.assume(z3.ForAll([k, k2], z3.Implies(z3.And(d.dom[k], d.dom[k2], first(k) < first(k2)), d.pos[k] < d.pos[k2])))
    d.meta = {"pairs": L, "first": first, "last": last}
    return DictCell(d)


def install_queue(world):
    def popleft(I, q):
        n = q.length()
        if not I.ctx.decide(n > 0):
            I.throw(IndexError, "pop from an empty deque")
        base = z3.simplify(to_z3_int(q.base_len))
        if z3.is_int_value(base) and base.as_long() == 0 and q.appended:
            return q.appended.pop(0)
        if I.ctx.decide(to_z3_int(q.base_len) > 0):
            q.base_len = to_z3_int(q.base_len) - 1
            return Opaque("queued PduHolder")
        return q.appended.pop(0)
    world.call_stubs["queue_popleft"] = popleft

    import collections

    def mk_deque(I, args, kwargs, node):
        if args or kwargs:
            from pyvc.values import Unsupported
            raise Unsupported("deque(...) with arguments")
        return QueueCell(z3.IntVal(0))
    world.call_stubs[id(collections.deque)] = ("deque", mk_deque)
