"""Assumed contracts (stubs) for the dependencies of the handlers: spacepackets PDU classes,
PduHolder, PduConfig, Countdown, byte fields, TLVs, pathlib.Path, the abstract VirtualFilestore,
user callbacks, fault-handler callbacks, sequence-number and check-timer providers.

Everything in this file is an ASSUMPTION about code outside the verified set; each is listed in the
evidence of the properties that use it and cross-checked (bounded) by stubs/conformance.py.
"""
from __future__ import annotations

import builtins
import copy as _copy
import enum
import pathlib

import z3

import spacepackets.cfdp as sp
import spacepackets.cfdp.pdu as pdu
from spacepackets.cfdp import (
    ChecksumType, ConditionCode, CrcFlag, Direction, EntityIdTlv, FaultHandlerCode, LargeFileFlag, PduConfig, PduType,
    SegmentationControl, TlvType, TransactionId, TransmissionMode,
)
from spacepackets.cfdp.pdu import (
    AckPdu, DirectiveType, EofPdu, FileDataPdu, FinishedPdu, KeepAlivePdu, MetadataParams, MetadataPdu, NakPdu,
    PduHolder, PromptPdu, TransactionStatus,
)
from spacepackets.cfdp.pdu.file_data import FileDataParams
from spacepackets.cfdp.pdu.finished import DeliveryCode, FileStatus, FinishedParams
from spacepackets.cfdp.pdu.header import PduHeader
from spacepackets.cfdp.tlv import MessageToUserTlv
from spacepackets.countdown import Countdown
from spacepackets.util import ByteFieldGenerator, UnsignedByteField

from cfdppy.filestore import VirtualFilestore
from cfdppy.mib import CheckTimerProvider, DefaultFaultHandlerBase, RemoteEntityCfg, RemoteEntityCfgTable
from cfdppy.user import CfdpUserBase

from pyvc.core import T, QueueCell
from pyvc.values import (
    And_, BytesSort, CheckerError, DictCell, Eq_, ListCell, Not_, Opaque, Or_, PathSort, SBytes, SEnum, SObj, SOpt,
    SPairList, SPath, SStr, StrSort, Unsupported, blen, is_sym, to_z3_int,
)

I_ = z3.IntSort()
B_ = z3.BoolSort()

PDU_CLASSES = [FileDataPdu, MetadataPdu, EofPdu, FinishedPdu, AckPdu, NakPdu, KeepAlivePdu, PromptPdu]
DIRECTIVE_OF = {MetadataPdu: DirectiveType.METADATA_PDU, EofPdu: DirectiveType.EOF_PDU,
                FinishedPdu: DirectiveType.FINISHED_PDU, AckPdu: DirectiveType.ACK_PDU, NakPdu: DirectiveType.NAK_PDU,
                KeepAlivePdu: DirectiveType.KEEP_ALIVE_PDU, PromptPdu: DirectiveType.PROMPT_PDU}

# uninterpreted functions of the abstract filestore / path algebra
path_of_str = z3.Function("path_of_str", StrSort, PathSort)
path_join = z3.Function("path_join", PathSort, StrSort, PathSort)
path_name = z3.Function("path_name", PathSort, StrSort)
path_posix = z3.Function("path_posix", PathSort, StrSort)
EMPTY_PATH = z3.Const("Path()", PathSort)
FS = z3.DeclareSort("FsState")
fs_is_dir = z3.Function("fs_is_dir", FS, PathSort, B_)
fs_exists = z3.Function("fs_exists", FS, PathSort, B_)
fs_size = z3.Function("fs_size", FS, PathSort, I_)
ChecksumSort = BytesSort
fs_checksum = z3.Function("fs_checksum", FS, I_, PathSort, I_, BytesSort)  # (state, type, path, size) -> 4 bytes
fs_read = z3.Function("fs_read", FS, PathSort, I_, I_, BytesSort)  # (state, path, offset, len)
fs_after_write = z3.Function("fs_after_write", FS, PathSort, BytesSort, I_, FS)
fs_after_create = z3.Function("fs_after_create", FS, PathSort, FS)
fs_after_truncate = z3.Function("fs_after_truncate", FS, PathSort, FS)
fs_after_delete = z3.Function("fs_after_delete", FS, PathSort, FS)
ubf_bytes = z3.Function("ubf_bytes", I_, I_, BytesSort)
NULL_CK = z3.Const("NULL_CHECKSUM_U32", BytesSort)
cfg_known = z3.Function("cfg_known", I_, B_)  # the remote entity table has a configuration for this id value


def zi(I, v):
    """integer argument of a modelled library call (None -> the TypeError CPython would raise)"""
    v = I.force(v)
    if v is None:
        I.throw(TypeError, "None where an integer is required")
    return to_z3_int(v)


def ubf(value, byte_len, label="ubf"):
    return SObj(UnsignedByteField, {"value": value, "byte_len": byte_len}, label)


def install(w):
    S = w.shapes
    # ------------------------------------------------------------------ shapes of library classes
    S[UnsignedByteField] = {"value": T.Int, "byte_len": T.Int}
    S[PduConfig] = {
        "source_entity_id": T.Obj(UnsignedByteField), "dest_entity_id": T.Obj(UnsignedByteField),
        "transaction_seq_num": T.Obj(UnsignedByteField), "trans_mode": T.Enum(TransmissionMode),
        "file_flag": T.Enum(LargeFileFlag), "crc_flag": T.Enum(CrcFlag), "direction": T.Enum(Direction),
        "seg_ctrl": T.Enum(SegmentationControl),
    }
    S[TransactionId] = {"source_id": T.Obj(UnsignedByteField), "seq_num": T.Obj(UnsignedByteField)}
    S[EntityIdTlv] = {"entity_id": T.Bytes}
    S[FinishedParams] = {"condition_code": T.Enum(ConditionCode), "delivery_code": T.Enum(DeliveryCode),
                         "file_status": T.Enum(FileStatus), "file_store_responses": T.Opaque,
                         "fault_location": T.Opt(T.Obj(EntityIdTlv))}
    S[Countdown] = {"expired": T.Bool}
    S[PduHeader] = {"pdu_conf": T.Obj(PduConfig)}
    S[FileDataPdu] = {"pdu_conf": T.Obj(PduConfig), "offset": T.Int, "file_data": T.Bytes, "segment_metadata": T.Opaque}
    S[MetadataPdu] = {"pdu_conf": T.Obj(PduConfig), "checksum_type": T.Enum(ChecksumType), "closure_requested": T.Bool,
                      "file_size": T.Int, "source_file_name": T.Opt(T.Str), "dest_file_name": T.Opt(T.Str),
                      "options": T.Opaque}
    S[EofPdu] = {"pdu_conf": T.Obj(PduConfig), "condition_code": T.Enum(ConditionCode), "file_checksum": T.Bytes,
                 "file_size": T.Int, "fault_location": T.Opaque}
    S[FinishedPdu] = {"pdu_conf": T.Obj(PduConfig), "finished_params": T.Obj(FinishedParams)}
    S[AckPdu] = {"pdu_conf": T.Obj(PduConfig), "directive_code_of_acked_pdu": T.Enum(DirectiveType),
                 "condition_code_of_acked_pdu": T.Enum(ConditionCode), "transaction_status": T.Enum(TransactionStatus)}
    S[NakPdu] = {"pdu_conf": T.Obj(PduConfig), "start_of_scope": T.Int, "end_of_scope": T.Int,
                 "segment_requests": T.PairList}
    S[KeepAlivePdu] = {"pdu_conf": T.Obj(PduConfig), "progress": T.Int}
    S[PromptPdu] = {"pdu_conf": T.Obj(PduConfig), "response_required": T.Opaque}
    S[PduHolder] = {"pdu": T.Opaque}
    S[VirtualFilestore] = {"fs": T.Opaque}
    S[CfdpUserBase] = {"vfs": T.Obj(VirtualFilestore)}

    # ------------------------------------------------------------------ byte fields
    @w.stub_call(UnsignedByteField)
    def _ubf_ctor(I, args, kwargs, node):
        val, bl = (list(args) + [kwargs.get("byte_len")])[:2] if len(args) < 2 else args
        if "val" in kwargs:
            val = kwargs["val"]
        return ubf(val, bl)

    @w.stub_method(UnsignedByteField, "__len__")
    def _ubf_len(I, self, args, kwargs, node):
        return self.f["byte_len"]

    @w.stub_attr(UnsignedByteField, "as_bytes")
    def _ubf_as_bytes(I, self):
        b = SBytes(ubf_bytes(to_z3_int(self.f["value"]), to_z3_int(self.f["byte_len"])))
        I.ctx.assume(blen(b.b) == to_z3_int(self.f["byte_len"]))
        return b

    w.eq_stubs[UnsignedByteField] = lambda I, a, b: And_(Eq_(a.f["value"], b.f["value"]), Eq_(a.f["byte_len"], b.f["byte_len"]))

    @w.stub_call(ByteFieldGenerator.from_int)
    def _bfg_from_int(I, args, kwargs, node):
        bl, val = args
        bl = I.force(bl)
        ok = Or_(*[Eq_(bl, k) for k in (1, 2, 4, 8)])
        if not I.ctx.decide(ok):
            I.throw(ValueError, "invalid byte length")
        # ASSUMPTION: the value fits the width (the real constructor raises ValueError otherwise)
        return ubf(val, bl)

    # ------------------------------------------------------------------ TransactionId / TLVs
    @w.stub_call(TransactionId)
    def _tid(I, args, kwargs, node):
        a = dict(zip(["source_entity_id", "transaction_seq_num"], args))
        a.update(kwargs)
        return SObj(TransactionId, {"source_id": a["source_entity_id"], "seq_num": a["transaction_seq_num"]}, "tid")

    w.eq_stubs[TransactionId] = lambda I, a, b: And_(
        Eq_(I.getattr_(a.f["source_id"], "value"), I.getattr_(b.f["source_id"], "value")),
        Eq_(I.getattr_(a.f["seq_num"], "value"), I.getattr_(b.f["seq_num"], "value")))

    @w.stub_call(EntityIdTlv)
    def _eidtlv(I, args, kwargs, node):
        (b,) = args
        return SObj(EntityIdTlv, {"entity_id": b}, "EntityIdTlv")

    w.eq_stubs[EntityIdTlv] = lambda I, a, b: Eq_(a.f["entity_id"], b.f["entity_id"])

    # ------------------------------------------------------------------ PduConfig
    @w.stub_method(PduConfig, "empty")
    def _pc_empty(I, cls, args, kwargs, node):
        return SObj(PduConfig, {
            "source_entity_id": ubf(0, 0, "empty"), "dest_entity_id": ubf(0, 0, "empty"),
            "transaction_seq_num": ubf(0, 0, "empty"), "trans_mode": TransmissionMode.ACKNOWLEDGED,
            "file_flag": LargeFileFlag.NORMAL, "crc_flag": CrcFlag.NO_CRC, "direction": Direction.TOWARDS_RECEIVER,
            "seg_ctrl": SegmentationControl.NO_RECORD_BOUNDARIES_PRESERVATION}, "PduConfig.empty")

    def copy_conf(conf):
        return SObj(PduConfig, dict(conf.f), (conf.label or "conf") + ".copy")

    # ------------------------------------------------------------------ Countdown
    @w.stub_method(Countdown, "from_seconds")
    def _cd_from_seconds(I, cls, args, kwargs, node):
        # ASSUMPTION: interval > 0 and no time passes during one handler call
        I.ctx.effect("timer", "from_seconds", getattr(node, "lineno", None))
        return SObj(Countdown, {"expired": False}, "Countdown.new")

    @w.stub_method(Countdown, "timed_out")
    def _cd_timed_out(I, self, args, kwargs, node):
        I.ctx.effect("timer", "timed_out", getattr(node, "lineno", None))
        return self.f["expired"]

    @w.stub_method(Countdown, "busy")
    def _cd_busy(I, self, args, kwargs, node):
        I.ctx.effect("timer", "busy", getattr(node, "lineno", None))
        return Not_(I.truth(self.f["expired"]))

    @w.stub_method(Countdown, "reset")
    def _cd_reset(I, self, args, kwargs, node):
        I.ctx.effect("timer", "reset", getattr(node, "lineno", None))
        self.f["expired"] = False
        I.ctx.event("timer_reset", timer=self)
        return None

    # ------------------------------------------------------------------ PDUs: common attributes
    def conf_of(p):
        return p.f["pdu_conf"]

    for cls in PDU_CLASSES:
        w.attr_stubs[(cls, "direction")] = lambda I, p: conf_of(p).f["direction"]
        w.attr_stubs[(cls, "pdu_header")] = lambda I, p: SObj(PduHeader, {"pdu_conf": conf_of(p)}, "hdr")
        w.attr_stubs[(cls, "dest_entity_id")] = lambda I, p: conf_of(p).f["dest_entity_id"]
        w.attr_stubs[(cls, "source_entity_id")] = lambda I, p: conf_of(p).f["source_entity_id"]
        w.attr_stubs[(cls, "transaction_seq_num")] = lambda I, p: conf_of(p).f["transaction_seq_num"]
        w.attr_stubs[(cls, "transmission_mode")] = lambda I, p: conf_of(p).f["trans_mode"]
        w.attr_stubs[(cls, "pdu_type")] = (lambda c: (lambda I, p: PduType.FILE_DATA if c is FileDataPdu else PduType.FILE_DIRECTIVE))(cls)
        if cls is not FileDataPdu:
            w.attr_stubs[(cls, "directive_type")] = (lambda c: (lambda I, p: DIRECTIVE_OF[c]))(cls)
    w.attr_stubs[(PduHeader, "direction")] = lambda I, h: h.f["pdu_conf"].f["direction"]
    w.attr_stubs[(FinishedPdu, "condition_code")] = lambda I, p: p.f["finished_params"].f["condition_code"]
    w.attr_stubs[(FinishedPdu, "delivery_code")] = lambda I, p: p.f["finished_params"].f["delivery_code"]
    w.attr_stubs[(FinishedPdu, "file_status")] = lambda I, p: p.f["finished_params"].f["file_status"]

    # ------------------------------------------------------------------ TLVs (abstract: an int pair per element)
    from spacepackets.cfdp.tlv import CfdpTlv, ReservedCfdpMessage, ProxyMessageType
    from spacepackets.cfdp.tlv import TlvTypeMissmatchError
    from pyvc.core import obj_wrapper
    S[CfdpTlv] = {"_pair": T.Pair}           # (tlv_type, identity of the value)
    S[MessageToUserTlv] = {"_pair": T.Pair}  # (kind, identity): kind 0 plain, 1 originating transaction id,
    S[ReservedCfdpMessage] = {"_pair": T.Pair}  # 2 proxy put response, 3 other proxy operation, 4 other reserved message
    w.msg_kind_of_value = z3.Function("msg_kind_of_value", I_, I_)
    w.orig_id_source = z3.Function("orig_id_source", I_, I_)
    w.orig_id_seq = z3.Function("orig_id_seq", I_, I_)

    @w.stub_method(MetadataPdu, "options_as_tlv")
    def _md_options(I, self, args, kwargs, node):
        # the options of the PDU as a list of CfdpTlv objects (None when the PDU has no options); the same abstract
        # list on every call
        if "_options_tlv" not in self.f:
            nm = f"{self.label or 'md'}.options"
            l = SPairList.fresh(nm)
            I.ctx.assume(l.n >= 0)
            cell = ListCell(l)
            cell.wrap = obj_wrapper(CfdpTlv)
            self.f["_options_tlv"] = SOpt(z3.Bool(nm + "?none"), cell)
        return self.f["_options_tlv"]

    @w.stub_attr(CfdpTlv, "tlv_type")
    def _tlv_type(I, t):
        e = SEnum(TlvType, t.f["_pair"][0])
        I.ctx.assume(e.domain())
        return e

    @w.stub_method(MessageToUserTlv, "from_tlv")
    def _mtu_from_tlv(I, cls, args, kwargs, node):
        (t,) = args
        a, b = t.f["_pair"]
        if not I.ctx.decide(a == int(TlvType.MESSAGE_TO_USER)):
            I.throw(TlvTypeMissmatchError, "not a message to user")
        return SObj(MessageToUserTlv, {"_pair": (w.msg_kind_of_value(b), b)}, "MessageToUserTlv")

    @w.stub_method(MessageToUserTlv, "is_reserved_cfdp_message")
    def _mtu_is_reserved(I, m, args, kwargs, node):
        return m.f["_pair"][0] != 0

    @w.stub_method(MessageToUserTlv, "to_reserved_msg_tlv")
    def _mtu_to_reserved(I, m, args, kwargs, node):
        if not I.ctx.decide(m.f["_pair"][0] != 0):
            return None
        return SObj(ReservedCfdpMessage, {"_pair": m.f["_pair"]}, "ReservedCfdpMessage")

    @w.stub_method(ReservedCfdpMessage, "is_originating_transaction_id")
    def _rm_is_orig(I, m, args, kwargs, node):
        return m.f["_pair"][0] == 1

    @w.stub_method(ReservedCfdpMessage, "is_cfdp_proxy_operation")
    def _rm_is_proxy(I, m, args, kwargs, node):
        k = m.f["_pair"][0]
        return z3.Or(k == 2, k == 3)

    @w.stub_method(ReservedCfdpMessage, "get_cfdp_proxy_message_type")
    def _rm_proxy_type(I, m, args, kwargs, node):
        k = m.f["_pair"][0]
        return SEnum(ProxyMessageType, z3.If(k == 2, int(ProxyMessageType.PUT_RESPONSE), int(ProxyMessageType.PUT_REQUEST)))

    @w.stub_method(ReservedCfdpMessage, "get_originating_transaction_id")
    def _rm_orig_id(I, m, args, kwargs, node):
        k, b = m.f["_pair"]
        if not I.ctx.decide(k == 1):
            return None
        return SObj(TransactionId, {"source_id": ubf(w.orig_id_source(b), 2, "orig.src"),
                                    "seq_num": ubf(w.orig_id_seq(b), 2, "orig.seq")}, "originating_id")

    # ------------------------------------------------------------------ PDU constructors
    def bind(names, args, kwargs, defaults=None):
        d = dict(defaults or {})
        d.update(dict(zip(names, args)))
        d.update(kwargs)
        return d

    @w.stub_call(FileDataParams)
    def _fdparams(I, args, kwargs, node):
        a = bind(["file_data", "offset", "segment_metadata"], args, kwargs, {"segment_metadata": None})
        return SObj(FileDataParams, a, "FileDataParams")

    @w.stub_call(FileDataPdu)
    def _fd_ctor(I, args, kwargs, node):
        a = bind(["pdu_conf", "params"], args, kwargs)
        conf = copy_conf(a["pdu_conf"])
        conf.f["direction"] = Direction.TOWARDS_RECEIVER
        p = a["params"]
        data = p.f["file_data"]
        # the real constructor raises ValueError when the PDU data field exceeds 65535 bytes
        n = I.length(data)
        if I.ctx.decide(to_z3_int(n) > 65535 - 8) if is_sym(n) else (n > 65535 - 8):
            I.throw(ValueError, "PDU data field too large")
        return SObj(FileDataPdu, {"pdu_conf": conf, "offset": p.f["offset"], "file_data": data,
                                  "segment_metadata": p.f["segment_metadata"]}, "FileDataPdu.new")

    @w.stub_call(MetadataParams)
    def _mdparams(I, args, kwargs, node):
        a = bind(["closure_requested", "checksum_type", "file_size", "source_file_name", "dest_file_name"], args, kwargs)
        return SObj(MetadataParams, a, "MetadataParams")

    @w.stub_call(MetadataPdu)
    def _md_ctor(I, args, kwargs, node):
        a = bind(["pdu_conf", "params", "options"], args, kwargs, {"options": None})
        conf = copy_conf(a["pdu_conf"])
        conf.f["direction"] = Direction.TOWARDS_RECEIVER
        p = a["params"]
        return SObj(MetadataPdu, {"pdu_conf": conf, "checksum_type": p.f["checksum_type"],
                                  "closure_requested": p.f["closure_requested"], "file_size": p.f["file_size"],
                                  "source_file_name": p.f["source_file_name"], "dest_file_name": p.f["dest_file_name"],
                                  "options": a["options"]}, "MetadataPdu.new")

    @w.stub_call(EofPdu)
    def _eof_ctor(I, args, kwargs, node):
        a = bind(["pdu_conf", "file_checksum", "file_size", "fault_location", "condition_code"], args, kwargs,
                 {"fault_location": None, "condition_code": ConditionCode.NO_ERROR})
        conf = copy_conf(a["pdu_conf"])
        ck = a["file_checksum"]
        n = I.length(ck)
        if not I.ctx.decide(Eq_(n, 4)):
            I.throw(ValueError, "checksum not 4 bytes")
        conf.f["direction"] = Direction.TOWARDS_RECEIVER
        return SObj(EofPdu, {"pdu_conf": conf, "condition_code": a["condition_code"], "file_checksum": ck,
                             "file_size": a["file_size"], "fault_location": a["fault_location"]}, "EofPdu.new")

    @w.stub_call(FinishedPdu)
    def _fin_ctor(I, args, kwargs, node):
        a = bind(["pdu_conf", "params"], args, kwargs)
        conf = copy_conf(a["pdu_conf"])
        conf.f["direction"] = Direction.TOWARDS_SENDER
        # NOTE: the real FinishedPdu keeps a reference to `params` (aliasing is represented)
        return SObj(FinishedPdu, {"pdu_conf": conf, "finished_params": a["params"]}, "FinishedPdu.new")

    @w.stub_call(FinishedParams)
    def _finparams(I, args, kwargs, node):
        a = bind(["condition_code", "delivery_code", "file_status", "file_store_responses", "fault_location"], args,
                 kwargs, {"file_store_responses": Opaque("[]"), "fault_location": None})
        return SObj(FinishedParams, a, "FinishedParams.new")

    @w.stub_call(AckPdu)
    def _ack_ctor(I, args, kwargs, node):
        a = bind(["pdu_conf", "directive_code_of_acked_pdu", "condition_code_of_acked_pdu", "transaction_status"], args, kwargs)
        conf = copy_conf(a["pdu_conf"])
        d = a["directive_code_of_acked_pdu"]
        if not I.ctx.decide(Or_(Eq_(d, DirectiveType.FINISHED_PDU), Eq_(d, DirectiveType.EOF_PDU))):
            I.throw(ValueError, "invalid directive code of acked PDU")
        if I.ctx.decide(Eq_(d, DirectiveType.FINISHED_PDU)):
            conf.f["direction"] = Direction.TOWARDS_RECEIVER
        else:
            conf.f["direction"] = Direction.TOWARDS_SENDER
        return SObj(AckPdu, {"pdu_conf": conf, "directive_code_of_acked_pdu": d,
                             "condition_code_of_acked_pdu": a["condition_code_of_acked_pdu"],
                             "transaction_status": a["transaction_status"]}, "AckPdu.new")

    @w.stub_call(NakPdu)
    def _nak_ctor(I, args, kwargs, node):
        a = bind(["pdu_conf", "start_of_scope", "end_of_scope", "segment_requests"], args, kwargs,
                 {"segment_requests": None})
        conf = a["pdu_conf"]
        conf.f["direction"] = Direction.TOWARDS_SENDER  # the real NakPdu mutates and KEEPS the caller's object
        reqs = a["segment_requests"]
        # the real NakPdu KEEPS the caller's list object: a later in-place mutation of that list (append, clear) changes the PDU that
        # was already queued.  (Across handler calls the environment has serialised the PDU: DESIGN section 5.)
        return SObj(NakPdu, {"pdu_conf": conf, "start_of_scope": a["start_of_scope"], "end_of_scope": a["end_of_scope"],
                             "segment_requests": reqs}, "NakPdu.new")

    # ------------------------------------------------------------------ PduHolder
    @w.stub_call(PduHolder)
    def _holder(I, args, kwargs, node):
        (p,) = args if args else (kwargs["pdu"],)
        return SObj(PduHolder, {"pdu": p}, "PduHolder")

    @w.stub_attr(PduHolder, "pdu_type")
    def _h_pdu_type(I, h):
        p = I.force(h.f["pdu"])
        if p is None:
            I.throw(AssertionError, "PduHolder.pdu_type on empty holder")
        return PduType.FILE_DATA if p.cls is FileDataPdu else PduType.FILE_DIRECTIVE

    @w.stub_attr(PduHolder, "pdu_directive_type")
    def _h_dir_type(I, h):
        p = I.force(h.f["pdu"])
        if p is None:
            I.throw(AssertionError, "PduHolder.pdu_directive_type on empty holder")
        if p.cls is FileDataPdu:
            return None
        return DIRECTIVE_OF[p.cls]

    def caster(target):
        def cast(I, h, args, kwargs, node):
            p = I.force(h.f["pdu"])
            if p is None or p.cls is not target:
                I.throw(TypeError, f"Stored PDU is not {target.__name__}")
            return p
        return cast

    for nm, c in [("to_file_data_pdu", FileDataPdu), ("to_metadata_pdu", MetadataPdu), ("to_eof_pdu", EofPdu),
                  ("to_ack_pdu", AckPdu), ("to_nak_pdu", NakPdu), ("to_finished_pdu", FinishedPdu),
                  ("to_keep_alive_pdu", KeepAlivePdu), ("to_prompt_pdu", PromptPdu)]:
        w.method_stubs[(PduHolder, nm)] = caster(c)

    # ------------------------------------------------------------------ pathlib.Path
    def path_ctor(I, args, kwargs, node):
        if not args:
            return SPath(EMPTY_PATH)
        (s,) = args
        s = I.force(s)
        if isinstance(s, SPath):
            return s
        if isinstance(s, SStr):
            return SPath(path_of_str(s.s))
        if s is None:
            I.throw(TypeError, "Path(None)")
        raise Unsupported(f"Path({s!r})")
    w.call_stubs[id(pathlib.Path)] = (pathlib.Path, path_ctor)

    def path_method(I, p, args, kwargs, node, name=None):
        raise Unsupported(name)

    def _pm(name):
        def deco(fn):
            w.call_stubs[("method", "SPath", name)] = fn
            return fn
        return deco

    @_pm("joinpath")
    def _joinpath(I, p, args, kwargs, node):
        (s,) = args
        if not isinstance(s, SStr):
            raise Unsupported("joinpath of non-string")
        return SPath(path_join(p.p, s.s))

    @_pm("as_posix")
    def _as_posix(I, p, args, kwargs, node):
        return SStr(path_posix(p.p))

    @_pm("exists")
    def _p_exists(I, p, args, kwargs, node):
        I.ctx.effect("hostfs", "Path.exists", getattr(node, "lineno", None))
        return I.ctx.fresh("host.exists", "bool")

    @_pm("is_dir")
    def _p_is_dir(I, p, args, kwargs, node):
        I.ctx.effect("hostfs", "Path.is_dir", getattr(node, "lineno", None))
        return I.ctx.fresh("host.is_dir", "bool")

    # every other pathlib method that consults or changes the HOST file system: effect `hostfs`, unknown result
    for _nm in ["is_file", "is_symlink", "is_absolute_on_host", "samefile", "is_mount", "is_socket", "is_fifo"]:
        def _mk_bool(nm):
            def f(I, p, args, kwargs, node):
                I.ctx.effect("hostfs", f"Path.{nm}", getattr(node, "lineno", None))
                return I.ctx.fresh(f"host.{nm}", "bool")
            return f
        w.call_stubs[("method", "SPath", _nm)] = _mk_bool(_nm)
    for _nm in ["stat", "lstat", "open", "read_bytes", "read_text", "write_bytes", "write_text", "unlink", "mkdir", "rmdir",
                "touch", "rename", "replace", "resolve", "iterdir", "glob", "rglob", "chmod", "symlink_to", "absolute",
                "expanduser", "owner", "group", "readlink", "hardlink_to"]:
        def _mk_opaque(nm):
            def f(I, p, args, kwargs, node):
                I.ctx.effect("hostfs", f"Path.{nm}", getattr(node, "lineno", None))
                return Opaque(f"Path.{nm}()")
            return f
        w.call_stubs[("method", "SPath", _nm)] = _mk_opaque(_nm)

    @w.stub_call(builtins.open)
    def _open(I, args, kwargs, node):
        I.ctx.effect("hostfs", "open", getattr(node, "lineno", None))
        if I.ctx.decide(I.ctx.fresh("open.fails", "bool")):
            I.throw(FileNotFoundError, "open")
        return Opaque("file-object")

    # SPath attribute `name` (property on Path)
    orig_getattr = None

    # ------------------------------------------------------------------ abstract VirtualFilestore
    def fs_state(I):
        g = I.ctx.ghost
        if "fs" not in g:
            g["fs"] = z3.Const("fs0", FS)
            g["fs_version"] = 0
        return g["fs"]

    def fs_set(I, new):
        g = I.ctx.ghost
        g["fs"] = new
        g["fs_version"] = g.get("fs_version", 0) + 1

    w.fs_state = fs_state

    def vfs_event(I, op, node, **kw):
        I.ctx.effect("vfs", op, getattr(node, "lineno", None))
        return I.ctx.event("vfs", op=op, **kw)

    def oracle_raise(I, op, classes):
        for c in classes:
            if I.ctx.decide(I.ctx.fresh(f"vfs.{op}.raises.{c.__name__}", "bool")):
                I.ctx.event("vfs_rejected", op=op, exc=c)
                I.throw(c, op)

    @w.stub_method(VirtualFilestore, "is_directory")
    def _v_is_dir(I, self, args, kwargs, node):
        (p,) = args
        vfs_event(I, "is_directory", node, path=p)
        return fs_is_dir(fs_state(I), p.p)

    @w.stub_method(VirtualFilestore, "file_exists")
    def _v_exists(I, self, args, kwargs, node):
        (p,) = args
        vfs_event(I, "file_exists", node, path=p)
        return fs_exists(fs_state(I), p.p)

    @w.stub_method(VirtualFilestore, "file_size")
    def _v_size(I, self, args, kwargs, node):
        (p,) = args
        vfs_event(I, "file_size", node, path=p)
        s = fs_size(fs_state(I), p.p)
        I.ctx.assume(s >= 0)
        return s

    @w.stub_method(VirtualFilestore, "truncate_file")
    def _v_trunc(I, self, args, kwargs, node):
        (p,) = args
        oracle_raise(I, "truncate_file", [FileNotFoundError, PermissionError])
        vfs_event(I, "truncate_file", node, path=p)
        fs_set(I, fs_after_truncate(fs_state(I), p.p))
        return None

    @w.stub_method(VirtualFilestore, "create_file")
    def _v_create(I, self, args, kwargs, node):
        (p,) = args
        oracle_raise(I, "create_file", [PermissionError])
        vfs_event(I, "create_file", node, path=p)
        fs_set(I, fs_after_create(fs_state(I), p.p))
        return Opaque("FilestoreResponseStatusCode")

    @w.stub_method(VirtualFilestore, "delete_file")
    def _v_delete(I, self, args, kwargs, node):
        (p,) = args
        vfs_event(I, "delete_file", node, path=p)
        fs_set(I, fs_after_delete(fs_state(I), p.p))
        return Opaque("FilestoreResponseStatusCode")

    @w.stub_method(VirtualFilestore, "write_data")
    def _v_write(I, self, args, kwargs, node):
        a = bind(["file", "data", "offset"], args, kwargs)
        oracle_raise(I, "write_data", [FileNotFoundError, PermissionError])
        vfs_event(I, "write_data", node, path=a["file"], data=a["data"], offset=a["offset"])
        d = a["data"]
        db = d.b if isinstance(d, SBytes) else None
        fs_set(I, fs_after_write(fs_state(I), a["file"].p, db, zi(I, a["offset"])) if db is not None else z3.FreshConst(FS, "fs"))
        return None

    @w.stub_method(VirtualFilestore, "calculate_checksum")
    def _v_ck(I, self, args, kwargs, node):
        a = bind(["checksum_type", "file_path", "size_to_verify", "segment_len"], args, kwargs, {"segment_len": 4096})
        vfs_event(I, "calculate_checksum", node, path=a["file_path"], size=a["size_to_verify"],
                  checksum_type=a["checksum_type"], segment_len=a["segment_len"])
        b = SBytes(fs_checksum(fs_state(I), zi(I, a["checksum_type"]), a["file_path"].p, zi(I, a["size_to_verify"])))
        I.ctx.assume(blen(b.b) == 4)
        return b

    @w.stub_method(VirtualFilestore, "read_data")
    def _v_read(I, self, args, kwargs, node):
        a = bind(["file", "offset", "read_len"], args, kwargs)
        vfs_event(I, "read_data", node, path=a["file"], offset=a["offset"], read_len=a["read_len"])
        # ASSUMPTION (environment): the source file of a running transaction stays present and readable
        # (the filestore may raise FileNotFoundError/PermissionError otherwise; that is the user's fault)
        return read_result(I, a["file"], a["offset"], a["read_len"])

    def read_result(I, path, offset, read_len):
        st = fs_state(I)
        off, ln = zi(I, offset), zi(I, read_len)
        b = SBytes(fs_read(st, path.p if path is not None else EMPTY_PATH, off, ln))
        size = fs_size(st, path.p) if path is not None else I.ctx.fresh("size")
        avail = z3.If(size - off > 0, size - off, 0)
        I.ctx.assume(blen(b.b) == z3.If(ln <= avail, z3.If(ln >= 0, ln, avail), avail))
        return b

    @w.stub_method(VirtualFilestore, "read_from_opened_file")
    def _v_read_opened(I, self, args, kwargs, node):
        a = bind(["bytes_io", "offset", "read_len"], args, kwargs)
        vfs_event(I, "read_from_opened_file", node, offset=a["offset"], read_len=a["read_len"])
        src = I.ctx.ghost.get("opened_path")
        return read_result(I, src, a["offset"], a["read_len"])

    # ------------------------------------------------------------------ user indications
    for name in ["transaction_indication", "eof_sent_indication", "transaction_finished_indication",
                 "metadata_recv_indication", "file_segment_recv_indication", "eof_recv_indication",
                 "report_indication", "suspended_indication", "resumed_indication", "fault_indication",
                 "abandoned_indication"]:
        def mk(nm):
            def ind(I, self, args, kwargs, node):
                I.ctx.effect("user", nm, getattr(node, "lineno", None))
                I.ctx.event("ind", name=nm, args=list(args) + list(kwargs.values()))
                return None
            return ind
        w.method_stubs[(CfdpUserBase, name)] = mk(name)

    # ------------------------------------------------------------------ fault handler callbacks (abstract methods)
    for name in ["notice_of_suspension_cb", "notice_of_cancellation_cb", "abandoned_cb", "ignore_cb"]:
        def mkcb(nm):
            def cb(I, self, args, kwargs, node):
                I.ctx.effect("fault_cb", nm, getattr(node, "lineno", None))
                a = list(args) + list(kwargs.values())
                I.ctx.event("fault_cb", name=nm, transaction_id=a[0], cond=a[1], progress=a[2])
                return None
            return cb
        w.method_stubs[(DefaultFaultHandlerBase, name)] = mkcb(name)

    # ------------------------------------------------------------------ providers
    @w.stub_method(CheckTimerProvider, "provide_check_timer")
    def _ctp(I, self, args, kwargs, node):
        I.ctx.effect("timer", "provide_check_timer", getattr(node, "lineno", None))
        # ghost: for which kind of entity the timer was requested (the provider may hand out different periods per kind)
        et = kwargs.get("entity_type", args[2] if len(args) > 2 else None)
        return SObj(Countdown, {"expired": False, "_for_entity": et}, "check_timer.new")

    # sequence number provider (ASSUMED contract: returns the current count, then increments; values >= 0 and
    # within the provider's width, which is one of 8/16/32 bits)
    from spacepackets.seqcount import ProvidesSeqCount

    @w.stub_method(ProvidesSeqCount, "get_and_increment")
    def _seq_next(I, self, args, kwargs, node):
        I.ctx.effect("seqnum", "get_and_increment", getattr(node, "lineno", None))
        v = I.ctx.fresh("seq.next")
        I.ctx.assume(v >= 0)
        I.ctx.event("seqnum", value=v)
        return v

    # RemoteEntityCfgTable.get_cfg: functional lookup by id value
    @w.stub_method(RemoteEntityCfgTable, "get_cfg")
    def _get_cfg(I, self, args, kwargs, node):
        (rid,) = args
        v = I.getattr_(rid, "value")
        memo = I.ctx.ghost.setdefault(("cfg_lookups", self.oid), [])
        for v0, r0 in memo:
            if I.ctx.decide(Eq_(v, v0)):
                return r0
        # the table is a (partial) function of the id value: cfg_known(v) says whether it has an entry
        if not I.ctx.decide(cfg_known(to_z3_int(v))):
            res = None
        else:
            res = I.fresh_obj(RemoteEntityCfg, f"remote_cfg!{len(memo)}")
            I.ctx.assume(Eq_(res.f["entity_id"].f["value"], v))
            inv = getattr(w, "remote_cfg_invariant", None)
            if inv:
                I.ctx.assume(inv(res))
        memo.append((v, res))
        return res
    S[RemoteEntityCfgTable] = {}

    # SPath.name / parent: attribute access goes through builtin_method as BoundMethod; patch getattr for SPath props
    w.spath_attrs = {"name": lambda I, p: SStr(path_name(p.p))}
