"""ASSUMED contracts (axioms) of the host operating-system primitives used by cfdppy.filestore and cfdppy.crc:
pathlib.Path methods, builtins.open and file objects, os.remove/mkdir/rmdir, shutil.rmtree, crcmod's PredefinedCrc,
struct.pack("!I"), int.from_bytes, bytes.ljust.

Host file system model (ghost state, per path of the symbolic execution):
    kind    : Path -> {0 absent, 1 regular file, 2 directory}
    content : Path -> Seq(byte)            (meaningful for regular files)
    parent  : Path -> Path                 (uninterpreted; `desc(q, p)`: q lies somewhere below p)
POSIX semantics with the exception class raised for each failed precondition.  These axioms are cross-checked against
the real OS in a scratch directory by stubs/conformance.py (bounded, thorough tier) and are listed as assumptions.
"""
from __future__ import annotations

import builtins
import os
import shutil
import struct

import z3

from pyvc.core import T
from pyvc.values import (
    And_, ByteSeq, CheckerError, Not_, Opaque, Or_, PathSort, SBytes, SEnum, SObj, SOpt, SPath, SStr, Unsupported, is_sym,
    to_z3_int,
)

I_ = z3.IntSort()
B_ = z3.BoolSort()
BYTE = z3.BitVecSort(8)

path_parent = z3.Function("path_parent", PathSort, PathSort)
path_desc = z3.Function("path_desc", PathSort, PathSort, B_)  # first lies (strictly) below second

# spec functions (uninterpreted; tied to the real libraries by conformance tests only)
CRC = {"crc32": z3.Function("CRC32_ISO_HDLC", ByteSeq, ByteSeq), "crc32c": z3.Function("CRC32C_CASTAGNOLI", ByteSeq, ByteSeq)}
u32_be = z3.Function("u32_big_endian", I_, ByteSeq)            # struct.pack("!I", x)
from_bytes_be = z3.Function("int_from_bytes_big", ByteSeq, I_)  # int.from_bytes(b, "big", signed=False)
ljust4 = z3.Function("ljust4_zero", ByteSeq, ByteSeq)          # b.ljust(4, b"\0")
zeros_of = z3.Function("zero_bytes", I_, ByteSeq)               # n zero bytes (definitional axioms below)


def _register_zeros():
    from pyvc.values import DEFN_AXIOMS
    n, i = z3.Int("zb!n"), z3.Int("zb!i")
    DEFN_AXIOMS["zero_bytes"] = [
        z3.ForAll([n], z3.Length(zeros_of(n)) == z3.If(n > 0, n, 0), patterns=[zeros_of(n)]),
        z3.ForAll([n, i], z3.Implies(z3.And(0 <= i, i < n), zeros_of(n)[i] == z3.BitVecVal(0, 8)), patterns=[zeros_of(n)[i]]),
    ]


_register_zeros()


class HostFile:
    """a file object returned by open()"""


class CrcObj:
    """crcmod.predefined.PredefinedCrc instance"""


class StatResult:
    pass


def seq_of(v):
    """z3 byte sequence of a bytes value"""
    if isinstance(v, SBytes):
        if v.seq is None:
            raise Unsupported("byte string without content model used where content matters")
        return v.seq
    if isinstance(v, (bytes, bytearray)):
        if len(v) == 0:
            return z3.Empty(ByteSeq)
        us = [z3.Unit(z3.BitVecVal(x, 8)) for x in v]
        return us[0] if len(us) == 1 else z3.Concat(*us)
    raise Unsupported(f"not a byte string: {v!r}")


def mk_bytes(seq):
    return SBytes(None, seq)


def hfs(I):
    g = I.ctx.ghost
    if "hfs" not in g:
        kind = z3.Array("hfs0.kind", PathSort, I_)
        content = z3.Array("hfs0.content", PathSort, ByteSeq)
        p = z3.Const("hfs!p", PathSort)
        q = z3.Const("hfs!q2", PathSort)
        I.ctx.assume(z3.ForAll([p], z3.And(kind[p] >= 0, kind[p] <= 2)))
        # tree well-formedness of the host file system: whatever exists lies in an existing directory
        I.ctx.assume(z3.ForAll([p], z3.Implies(kind[p] != 0, kind[path_parent(p)] == 2), patterns=[kind[p]]))
        # `desc` is the transitive closure of `parent`
        I.ctx.assume(z3.ForAll([p], path_desc(p, path_parent(p)), patterns=[path_parent(p)]))
        I.ctx.assume(z3.ForAll([p, q], z3.Implies(path_desc(path_parent(p), q), path_desc(p, q)),
                               patterns=[z3.MultiPattern(path_desc(path_parent(p), q))]))
        g["hfs"] = {"kind": kind, "content": content}
        g["hfs0"] = dict(g["hfs"])
    return g["hfs"]


def hfs_event(I, op, **kw):
    I.ctx.event("hostfs", op=op, **kw)


def clip(x, lo, hi):
    return z3.If(x < lo, lo, z3.If(x > hi, hi, x))


def install(w):
    S = w.shapes
    S[HostFile] = {"path": T.Path, "pos": T.Int, "mode": T.Opaque}
    S[CrcObj] = {"fed": T.ByteSeq}
    from cfdppy.filestore import NativeFilestore
    S[NativeFilestore] = {}

    def eff(I, what, node):
        I.ctx.effect("hostfs", what, getattr(node, "lineno", None))

    # ------------------------------------------------------------------ pathlib queries
    def pm(name):
        def deco(fn):
            w.call_stubs[("method", "SPath", name)] = fn
            return fn
        return deco

    @pm("exists")
    def _exists(I, p, args, kwargs, node):
        eff(I, "Path.exists", node)
        return hfs(I)["kind"][p.p] != 0

    @pm("is_dir")
    def _is_dir(I, p, args, kwargs, node):
        eff(I, "Path.is_dir", node)
        return hfs(I)["kind"][p.p] == 2

    @pm("is_file")
    def _is_file(I, p, args, kwargs, node):
        eff(I, "Path.is_file", node)
        return hfs(I)["kind"][p.p] == 1

    @pm("stat")
    def _stat(I, p, args, kwargs, node):
        eff(I, "Path.stat", node)
        fs = hfs(I)
        if not I.ctx.decide(fs["kind"][p.p] != 0):
            I.throw(FileNotFoundError, "stat")
        return SObj(StatResult, {"st_size": z3.If(fs["kind"][p.p] == 1, z3.Length(fs["content"][p.p]), I.ctx.fresh("dir.st_size"))}, "stat")

    def _move(I, p, args, node, what):
        """POSIX rename(2)/Path.replace: an existing regular target file is silently replaced"""
        eff(I, what, node)
        (new,) = args
        fs = hfs(I)
        k, c = fs["kind"], fs["content"]
        if not I.ctx.decide(k[p.p] != 0):
            I.throw(FileNotFoundError, what)
        if I.ctx.decide(k[p.p] == 2):
            raise Unsupported("renaming a directory (not reachable through the native filestore's checks)")
        if I.ctx.decide(k[new.p] == 2):
            I.throw(IsADirectoryError, what)
        if not I.ctx.decide(k[path_parent(new.p)] == 2):
            I.throw(FileNotFoundError, what)
        if not I.ctx.decide(p.p != new.p):
            return new
        hfs_event(I, what, src=p, dst=new)
        fs["content"] = z3.Store(c, new.p, c[p.p])
        fs["kind"] = z3.Store(z3.Store(k, new.p, z3.IntVal(1)), p.p, z3.IntVal(0))
        return new

    @pm("rename")
    def _rename(I, p, args, kwargs, node):
        return _move(I, p, args, node, "Path.rename")

    @pm("replace")
    def _replace(I, p, args, kwargs, node):
        return _move(I, p, args, node, "Path.replace")

    w.spath_attrs["parent"] = lambda I, p: SPath(path_parent(p.p))

    # ------------------------------------------------------------------ os / shutil
    @w.stub_call(os.remove)
    def _os_remove(I, args, kwargs, node):
        (p,) = args
        eff(I, "os.remove", node)
        fs = hfs(I)
        if not I.ctx.decide(fs["kind"][p.p] != 0):
            I.throw(FileNotFoundError, "os.remove")
        if I.ctx.decide(fs["kind"][p.p] == 2):
            I.throw(IsADirectoryError, "os.remove")
        hfs_event(I, "os.remove", path=p)
        fs["kind"] = z3.Store(fs["kind"], p.p, z3.IntVal(0))
        return None

    @w.stub_call(os.mkdir)
    def _os_mkdir(I, args, kwargs, node):
        (p,) = args
        eff(I, "os.mkdir", node)
        fs = hfs(I)
        if I.ctx.decide(fs["kind"][p.p] != 0):
            I.throw(FileExistsError, "os.mkdir")
        if not I.ctx.decide(fs["kind"][path_parent(p.p)] == 2):
            # missing parent: FileNotFoundError; parent is a regular file: NotADirectoryError (both OSError)
            I.throw(FileNotFoundError if I.ctx.decide(fs["kind"][path_parent(p.p)] == 0) else NotADirectoryError, "os.mkdir")
        hfs_event(I, "os.mkdir", path=p)
        fs["kind"] = z3.Store(fs["kind"], p.p, z3.IntVal(2))
        return None

    def _has_child(fs, p):
        q = z3.Const("hfs!child", PathSort)
        return z3.Exists([q], z3.And(path_parent(q) == p, fs["kind"][q] != 0))

    @w.stub_call(os.rmdir)
    def _os_rmdir(I, args, kwargs, node):
        (p,) = args
        eff(I, "os.rmdir", node)
        fs = hfs(I)
        if not I.ctx.decide(fs["kind"][p.p] != 0):
            I.throw(FileNotFoundError, "os.rmdir")
        if not I.ctx.decide(fs["kind"][p.p] == 2):
            I.throw(NotADirectoryError, "os.rmdir")
        nonempty = I.ctx.fresh("rmdir.nonempty", "bool")
        I.ctx.assume(nonempty == _has_child(fs, p.p))
        if I.ctx.decide(nonempty):
            I.throw(OSError, "directory not empty")
        hfs_event(I, "os.rmdir", path=p)
        fs["kind"] = z3.Store(fs["kind"], p.p, z3.IntVal(0))
        return None

    @w.stub_call(shutil.rmtree)
    def _rmtree(I, args, kwargs, node):
        (p,) = args
        eff(I, "shutil.rmtree", node)
        fs = hfs(I)
        if not I.ctx.decide(fs["kind"][p.p] == 2):
            I.throw(NotADirectoryError if I.ctx.decide(fs["kind"][p.p] == 1) else FileNotFoundError, "shutil.rmtree")
        hfs_event(I, "shutil.rmtree", path=p)
        nk = z3.Array(f"hfs.kind!{next(I.ctx._n)}", PathSort, I_)
        q = z3.Const("hfs!q", PathSort)
        I.ctx.assume(z3.ForAll([q], nk[q] == z3.If(z3.Or(q == p.p, path_desc(q, p.p)), 0, fs["kind"][q])))
        fs["kind"] = nk
        return None

    # ------------------------------------------------------------------ open() and file objects
    @w.stub_call(builtins.open)
    def _open(I, args, kwargs, node):
        eff(I, "open", node)
        p = args[0]
        mode = args[1] if len(args) > 1 else kwargs.get("mode", "r")
        if not isinstance(p, SPath) or not isinstance(mode, str):
            raise Unsupported(f"open({p!r}, {mode!r})")
        fs = hfs(I)
        k = fs["kind"]
        if I.ctx.decide(k[p.p] == 2):
            I.throw(IsADirectoryError, "open")
        base = mode.replace("b", "")
        if base in ("r", "r+"):
            if not I.ctx.decide(k[p.p] == 1):
                I.throw(FileNotFoundError, "open")
        elif base == "x":
            if I.ctx.decide(k[p.p] != 0):
                I.throw(FileExistsError, "open")
        if base in ("w", "x", "a"):
            if not I.ctx.decide(k[path_parent(p.p)] == 2):
                I.throw(FileNotFoundError if I.ctx.decide(k[path_parent(p.p)] == 0) else NotADirectoryError, "open")
        if base in ("w", "x"):
            hfs_event(I, "open:" + base, path=p)
            fs["kind"] = z3.Store(k, p.p, z3.IntVal(1))
            fs["content"] = z3.Store(fs["content"], p.p, z3.Empty(ByteSeq))
        elif base == "a":
            raise Unsupported("append mode")
        return SObj(HostFile, {"path": p, "pos": z3.IntVal(0), "mode": base}, "file")

    @w.stub_method(HostFile, "seek")
    def _seek(I, f, args, kwargs, node):
        (off,) = args
        off = I.force(off)
        if off is None:
            I.throw(TypeError, "seek(None)")
        off = to_z3_int(off)
        if not I.ctx.decide(off >= 0):
            I.throw(OSError, "negative seek position")
        f.f["pos"] = off
        return off

    @w.stub_method(HostFile, "read")
    def _read(I, f, args, kwargs, node):
        fs = hfs(I)
        c = fs["content"][f.f["path"].p]
        ln = z3.Length(c)
        pos = to_z3_int(f.f["pos"])
        n = I.force(args[0]) if args else None
        start = z3.If(pos > ln, ln, pos)
        if n is None:
            take = ln - start
        else:
            n = to_z3_int(n)
            take = z3.If(n < 0, ln - start, z3.If(n > ln - start, ln - start, n))
        data = z3.Extract(c, start, take)
        f.f["pos"] = z3.If(pos > ln, pos, start + take)
        return mk_bytes(data)

    @w.stub_method(HostFile, "write")
    def _write(I, f, args, kwargs, node):
        (data,) = args
        if f.f["mode"] not in ("w", "x", "r+"):
            I.throw(OSError, "file not open for writing")
        fs = hfs(I)
        p = f.f["path"].p
        c = fs["content"][p]
        d = seq_of(data)
        pos = to_z3_int(f.f["pos"])
        ln, dl = z3.Length(c), z3.Length(d)
        # bytes before pos (zero filled beyond the old end), the data, bytes after pos+len(data)
        zeros = zeros_of(pos - ln)
        head = z3.If(pos > ln, z3.Concat(c, zeros), z3.Extract(c, 0, pos))
        tail = z3.If(pos + dl < ln, z3.Extract(c, pos + dl, ln - (pos + dl)), z3.Empty(ByteSeq))
        hfs_event(I, "write", path=f.f["path"], offset=pos, data=data)
        fs["content"] = z3.Store(fs["content"], p, z3.Concat(head, d, tail))
        f.f["pos"] = pos + dl
        return dl

    # ------------------------------------------------------------------ crcmod
    from crcmod.predefined import PredefinedCrc

    @w.stub_call(PredefinedCrc)
    def _crc_ctor(I, args, kwargs, node):
        (name,) = args
        if name not in CRC:
            raise Unsupported(f"PredefinedCrc({name!r})")
        return SObj(CrcObj, {"fed": z3.Empty(ByteSeq), "name": name}, "crc")

    @w.stub_method(CrcObj, "update")
    def _crc_update(I, c, args, kwargs, node):
        (data,) = args
        c.f["fed"] = z3.Concat(c.f["fed"], seq_of(data))
        return None

    @w.stub_method(CrcObj, "digest")
    def _crc_digest(I, c, args, kwargs, node):
        r = mk_bytes(CRC[c.f["name"]](c.f["fed"]))
        I.ctx.assume(z3.Length(r.seq) == 4)
        return r

    # ------------------------------------------------------------------ struct / int / bytes
    @w.stub_call(struct.pack)
    def _pack(I, args, kwargs, node):
        fmt, x = args
        if fmt != "!I":
            raise Unsupported(f"struct.pack({fmt!r})")
        x = to_z3_int(x)
        if not I.ctx.decide(z3.And(0 <= x, x < 2 ** 32)):
            I.throw(struct.error, "argument out of range")
        r = mk_bytes(u32_be(x))
        I.ctx.assume(z3.Length(r.seq) == 4)
        return r

    def _from_bytes(I, args, kwargs, node):
        b = args[0]
        order = args[1] if len(args) > 1 else kwargs.get("byteorder")
        if order != "big" or kwargs.get("signed", False):
            raise Unsupported("int.from_bytes variant")
        v = from_bytes_be(seq_of(b))
        I.ctx.assume(v >= 0)
        return v
    w.call_stubs[id(int.from_bytes)] = (int.from_bytes, _from_bytes)
    w.int_from_bytes = _from_bytes

    def _ljust(I, b, args, kwargs, node):
        width, fill = args
        if width != 4 or fill != b"\0":
            raise Unsupported("bytes.ljust variant")
        return mk_bytes(ljust4(seq_of(b)))
    w.call_stubs[("method", "SBytes", "ljust")] = _ljust
