"""Bounded conformance tests of the ASSUMED contracts (stubs) against the real libraries / operating system.

They are never counted as proved; a mismatch is a checker error (the axioms the proofs rest on are wrong for this
platform), not a property violation.
"""
from __future__ import annotations

import os
import random
import shutil
import struct
import tempfile
import zlib


def _crc32c_ref(data: bytes) -> int:
    crc = 0xFFFFFFFF
    for b in data:
        crc ^= b
        for _ in range(8):
            crc = (crc >> 1) ^ (0x82F63B78 if crc & 1 else 0)
    return crc ^ 0xFFFFFFFF


def _crc32_ref(data: bytes) -> int:
    crc = 0xFFFFFFFF
    for b in data:
        crc ^= b
        for _ in range(8):
            crc = (crc >> 1) ^ (0xEDB88320 if crc & 1 else 0)
    return crc ^ 0xFFFFFFFF


def crc_conformance(seed=0, n=200, maxlen=48):
    """crcmod: update(a); update(b) == update(a+b); digest() == 4 big-endian bytes of CRC-32/ISO-HDLC resp. CRC-32C"""
    from crcmod.predefined import PredefinedCrc
    rnd = random.Random(seed)
    fails, cases = [], 0
    samples = [bytes(), b"\x00", b"\xff", b"123456789"] + [bytes(rnd.randrange(256) for _ in range(rnd.randrange(maxlen))) for _ in range(n)]
    for d in samples:
        for name, ref in (("crc32", _crc32_ref), ("crc32c", _crc32c_ref)):
            want = ref(d).to_bytes(4, "big")
            if name == "crc32" and zlib.crc32(d).to_bytes(4, "big") != want:
                fails.append(f"reference crc32 disagrees with zlib for {d.hex()}")
            for cut in sorted({0, len(d) // 3, len(d) // 2, len(d)}):
                c = PredefinedCrc(name)
                c.update(d[:cut])
                c.update(d[cut:])
                cases += 1
                if c.digest() != want:
                    fails.append(f"{name} {d.hex()} split {cut}: {c.digest().hex()} != {want.hex()}")
    return {"what": "crcmod PredefinedCrc('crc32'/'crc32c'): streaming + value against a bit-serial reference (and zlib)",
            "bound": f"{len(samples)} byte strings of length < {maxlen}, 4 split points each, seed {seed}", "cases": cases, "failures": fails[:5]}


def codec_conformance(seed=0, n=300):
    rnd = random.Random(seed)
    fails, cases = [], 0
    for x in [0, 1, 255, 256, 2 ** 32 - 1] + [rnd.randrange(2 ** 32) for _ in range(n)]:
        cases += 1
        b = struct.pack("!I", x)
        if len(b) != 4 or int.from_bytes(b, "big") != x:
            fails.append(f"struct.pack('!I', {x})")
    for ln in range(0, 5):
        for _ in range(20):
            d = bytes(rnd.randrange(256) for _ in range(ln))
            cases += 1
            v = int.from_bytes(d.ljust(4, b"\0"), byteorder="big", signed=False)
            if v != sum(d[i] << (8 * (3 - i)) for i in range(ln)):
                fails.append(f"from_bytes(ljust) {d.hex()}")
    return {"what": "struct.pack('!I'), int.from_bytes(..., 'big'), bytes.ljust(4, b'\\0')", "bound": f"{cases} values, seed {seed}",
            "cases": cases, "failures": fails[:5]}


def os_conformance(workdir=None):
    """the exception classes and effects the OS axioms of stubs/oslib.py state, in a scratch directory"""
    from pathlib import Path
    root = Path(tempfile.mkdtemp(prefix="osconf", dir=workdir))
    fails, cases = [], 0

    def expect(exc, fn, what):
        nonlocal cases
        cases += 1
        try:
            fn()
        except exc:
            return
        except Exception as e:  # noqa: BLE001
            fails.append(f"{what}: raised {type(e).__name__}, axiom says {getattr(exc, '__name__', exc)}")
            return
        fails.append(f"{what}: no exception, axiom says {getattr(exc, '__name__', exc)}")

    def check(cond, what):
        nonlocal cases
        cases += 1
        if not cond:
            fails.append(what)

    try:
        f, d, missing = root / "f", root / "d", root / "missing"
        f.write_bytes(b"0123456789")
        d.mkdir()
        (d / "child").write_bytes(b"x")
        check(f.exists() and not f.is_dir() and d.is_dir() and not missing.exists(), "exists/is_dir")
        check(f.stat().st_size == 10, "stat().st_size")
        expect(FileNotFoundError, lambda: open(missing, "rb"), "open rb missing")
        expect(FileNotFoundError, lambda: open(missing, "r+b"), "open r+b missing")
        expect(IsADirectoryError, lambda: open(d, "rb"), "open rb dir")
        expect(IsADirectoryError, lambda: open(d, "w"), "open w dir")
        expect(FileExistsError, lambda: open(f, "x"), "open x existing")
        expect(FileNotFoundError, lambda: open(missing / "sub", "w"), "open w without parent")
        expect(FileNotFoundError, lambda: os.remove(missing), "os.remove missing")
        expect(IsADirectoryError, lambda: os.remove(d), "os.remove dir")
        expect(FileExistsError, lambda: os.mkdir(d), "os.mkdir existing")
        expect(FileNotFoundError, lambda: os.mkdir(missing / "sub"), "os.mkdir without parent")
        expect(OSError, lambda: os.rmdir(d), "os.rmdir non-empty")
        expect(NotADirectoryError, lambda: os.rmdir(f), "os.rmdir file")
        expect(FileNotFoundError, lambda: os.rmdir(missing), "os.rmdir missing")
        expect(FileNotFoundError, lambda: f.rename(missing / "sub"), "rename into missing dir")
        # rename/replace silently overwrite an existing regular file
        a, b = root / "a", root / "b"
        a.write_bytes(b"AAA")
        b.write_bytes(b"B")
        a.rename(b)
        check(not a.exists() and b.read_bytes() == b"AAA", "rename overwrites existing file")
        a.write_bytes(b"CC")
        a.replace(b)
        check(not a.exists() and b.read_bytes() == b"CC", "replace overwrites existing file")
        # write at offset: in place, zero fill beyond the end; read clipping
        with open(f, "r+b") as fh:
            fh.seek(3)
            fh.write(b"ab")
        check(f.read_bytes() == b"012ab56789", "write in the middle keeps other bytes")
        with open(f, "r+b") as fh:
            fh.seek(13)
            fh.write(b"Z")
        check(f.read_bytes() == b"012ab56789\0\0\0Z", "seek beyond the end zero fills")
        with open(f, "rb") as fh:
            fh.seek(12)
            check(fh.read(10) == b"\0Z", "read clipped at the end")
            fh.seek(40)
            check(fh.read(4) == b"", "read beyond the end is empty")
            fh.seek(0)
            check(fh.read(0) == b"", "read(0)")
        with open(f, "w"):
            pass
        check(f.read_bytes() == b"", "open w truncates")
        shutil.rmtree(d)
        check(not d.exists(), "rmtree removes the directory and what is below")
        os.mkdir(d)
        os.rmdir(d)
        check(not d.exists(), "rmdir of an empty directory")
    finally:
        shutil.rmtree(root, ignore_errors=True)
    return {"what": "POSIX primitives used by NativeFilestore (pathlib, open modes, os.remove/mkdir/rmdir, shutil.rmtree, seek/read/write)",
            "bound": f"{cases} concrete calls in a scratch directory", "cases": cases, "failures": fails[:8]}


def pdu_model_conformance():
    """the abstract PDU model: direction/ids/mode are header fields copied by the constructors; directive types"""
    from spacepackets.cfdp import ConditionCode, Direction, PduConfig, TransmissionMode
    from spacepackets.cfdp.pdu import (AckPdu, DirectiveType, EofPdu, FileDataPdu, FinishedPdu, MetadataParams, MetadataPdu, NakPdu,
                                        PduHolder, TransactionStatus)
    from spacepackets.cfdp.pdu.file_data import FileDataParams
    from spacepackets.cfdp.pdu.finished import DeliveryCode, FileStatus, FinishedParams
    from spacepackets.cfdp import ChecksumType
    from spacepackets.util import ByteFieldU8, ByteFieldU16
    fails, cases = [], 0

    def check(c, what):
        nonlocal cases
        cases += 1
        if not c:
            fails.append(what)
    for mode in TransmissionMode:
        conf = PduConfig(ByteFieldU16(1), ByteFieldU16(2), ByteFieldU8(3), mode)
        fd = FileDataPdu(conf, FileDataParams(b"abcd", 4))
        check(fd.direction == Direction.TOWARDS_RECEIVER and not hasattr(fd, "directive_type") and fd.offset == 4, "FileDataPdu")
        md = MetadataPdu(conf, MetadataParams(True, ChecksumType.CRC_32, 10, "s", "d"))
        check(md.direction == Direction.TOWARDS_RECEIVER and md.directive_type == DirectiveType.METADATA_PDU and md.file_size == 10, "MetadataPdu")
        eof = EofPdu(conf, b"\0\0\0\1", 10)
        check(eof.direction == Direction.TOWARDS_RECEIVER and eof.file_size == 10 and eof.condition_code == ConditionCode.NO_ERROR, "EofPdu")
        try:
            EofPdu(conf, b"\0", 1)
            check(False, "EofPdu accepts a checksum that is not 4 bytes")
        except ValueError:
            check(True, "")
        fp = FinishedParams(ConditionCode.NO_ERROR, DeliveryCode.DATA_COMPLETE, FileStatus.FILE_RETAINED)
        fin = FinishedPdu(conf, fp)
        check(fin.direction == Direction.TOWARDS_SENDER and fin.finished_params is fp, "FinishedPdu keeps a reference to its params")
        a1 = AckPdu(conf, DirectiveType.EOF_PDU, ConditionCode.NO_ERROR, TransactionStatus.ACTIVE)
        a2 = AckPdu(conf, DirectiveType.FINISHED_PDU, ConditionCode.NO_ERROR, TransactionStatus.ACTIVE)
        check(a1.direction == Direction.TOWARDS_SENDER and a2.direction == Direction.TOWARDS_RECEIVER, "AckPdu direction by acked directive")
        nconf = PduConfig(ByteFieldU16(1), ByteFieldU16(2), ByteFieldU8(3), mode)
        nak = NakPdu(nconf, 0, 8, [(0, 4)])
        check(nak.direction == Direction.TOWARDS_SENDER and nconf.direction == Direction.TOWARDS_SENDER, "NakPdu flips the caller's pdu_conf")
        h = PduHolder(fd)
        try:
            h.to_eof_pdu()
            check(False, "PduHolder cast of the wrong kind does not raise")
        except TypeError:
            check(True, "")
    return {"what": "spacepackets PDU object model (constructors, direction rule, directive types, holder casts)",
            "bound": f"{cases} constructions", "cases": cases, "failures": fails[:8]}


def run(which, seed=0, thorough=False, workdir=None):
    n = 2000 if thorough else 150
    out = []
    if "crc" in which:
        out.append(crc_conformance(seed, n))
        out.append(codec_conformance(seed, n))
    if "os" in which:
        out.append(os_conformance(workdir))
    if "pdu" in which:
        out.append(pdu_model_conformance())
    return out
