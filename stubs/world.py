"""Builds the verification world: real-source index, stubs, shapes, contracts."""
from __future__ import annotations

import importlib
import logging

from pyvc.core import SourceIndex, World, T

REPO_MODULES = [
    "cfdppy.handler.dest", "cfdppy.handler.source", "cfdppy.handler.common", "cfdppy.handler.defs",
    "cfdppy.filestore", "cfdppy.crc", "cfdppy.mib", "cfdppy.request", "cfdppy.user", "cfdppy.defs",
    "cfdppy.exceptions",
]
LIB_FUNCS = {
    "spacepackets.cfdp.pdu.nak": ["get_max_seg_reqs_for_max_packet_size_and_pdu_cfg"],
    "spacepackets.cfdp.pdu.file_data": ["get_max_file_seg_len_for_max_packet_len_and_pdu_cfg"],
    "spacepackets.cfdp.conf": ["PduConfig.header_len"],
}


WORLD = None


def build_world():
    global WORLD
    idx = SourceIndex()
    for m in REPO_MODULES:
        idx.add_module(importlib.import_module(m))
    for m, only in LIB_FUNCS.items():
        idx.add_module(importlib.import_module(m), only=set(only))
    w = World(idx)
    for m in REPO_MODULES:
        mod = importlib.import_module(m)
        lg = getattr(mod, "_LOGGER", None)
        if isinstance(lg, logging.Logger):
            w.ignore_calls_on.append(lg)
    from stubs import builtins_
    builtins_.install(w)
    builtins_.install_queue(w)
    from stubs import shapes, cfdp, oslib
    shapes.install(w)
    cfdp.install(w)
    oslib.install(w)
    WORLD = w
    import contracts
    contracts.install(w)
    return w
