"""Field types of the classes whose instances appear in symbolic pre-states."""
from __future__ import annotations

from pyvc.core import T


def install(w):
    from cfdppy.handler.dest import LostSegmentTracker
    w.shapes[LostSegmentTracker] = {"lost_segments": T.IntDict}
