"""Field types of the repo classes whose instances appear in symbolic pre-states.

The tables are cross-checked against the real classes by `conformance()` (every run of a check):
instantiating the real class must yield exactly these attribute names.
"""
from __future__ import annotations

from pyvc.core import T


def install(w):
    from spacepackets.cfdp import ChecksumType, ConditionCode, PduConfig, TransactionId, TransmissionMode, SegmentationControl
    from spacepackets.cfdp.pdu.finished import FinishedParams
    from spacepackets.countdown import Countdown
    from spacepackets.util import UnsignedByteField
    from spacepackets.seqcount import ProvidesSeqCount
    from spacepackets.cfdp.tlv import MessageToUserTlv

    import cfdppy.handler.dest as D
    import cfdppy.handler.source as S
    from cfdppy.defs import CfdpState
    from cfdppy.filestore import VirtualFilestore
    from cfdppy.handler.common import _PositiveAckProcedureParams
    from cfdppy.mib import (
        CheckTimerProvider, DefaultFaultHandlerBase, IndicationCfg, LocalEntityCfg, RemoteEntityCfg, RemoteEntityCfgTable,
    )
    from cfdppy.request import PutRequest
    from cfdppy.user import CfdpUserBase

    sh = w.shapes
    UBF = T.Obj(UnsignedByteField)
    sh[D.LostSegmentTracker] = {"lost_segments": T.IntDict}
    sh[IndicationCfg] = {k: T.Bool for k in [
        "eof_sent_indication_required", "eof_recv_indication_required", "file_segment_recvd_indication_required",
        "transaction_finished_indication_required", "suspended_indication_required", "resumed_indication_required"]}
    sh[DefaultFaultHandlerBase] = {"_handler_dict": T.IntDict}
    sh[LocalEntityCfg] = {"local_entity_id": UBF, "indication_cfg": T.Obj(IndicationCfg),
                          "default_fault_handlers": T.Obj(DefaultFaultHandlerBase)}
    sh[RemoteEntityCfg] = {
        "entity_id": UBF, "max_file_segment_len": T.Opt(T.Int), "max_packet_len": T.Int, "closure_requested": T.Bool,
        "crc_on_transmission": T.Bool, "default_transmission_mode": T.Enum(TransmissionMode),
        "crc_type": T.Enum(ChecksumType), "positive_ack_timer_interval_seconds": T.Opaque,
        "positive_ack_timer_expiration_limit": T.Int, "check_limit": T.Int, "disposition_on_cancellation": T.Bool,
        "immediate_nak_mode": T.Bool, "nak_timer_interval_seconds": T.Opaque, "nak_timer_expiration_limit": T.Int,
        "cfdp_version": T.Int,
    }
    sh[CheckTimerProvider] = {}
    sh[ProvidesSeqCount] = {"max_bit_width": T.Int}
    sh[_PositiveAckProcedureParams] = {"ack_timer": T.Opt(T.Obj(Countdown)), "ack_counter": T.Int}
    # ---- destination handler
    sh[D.DestStateWrapper] = {"state": T.Enum(CfdpState), "step": T.Enum(D.TransactionStep),
                              "transaction_id": T.Opt(T.Obj(TransactionId)), "_num_packets_ready": T.Int}
    sh[D._DestFileParams] = {"progress": T.Int, "segment_len": T.Int, "crc32": T.Opt(T.Bytes), "metadata_only": T.Bool,
                             "file_size": T.Opt(T.Int), "file_name": T.Path, "file_size_eof": T.Opt(T.Int)}
    sh[D._AckedModeParams] = {
        "lost_seg_tracker": T.Obj(D.LostSegmentTracker), "metadata_missing": T.Bool, "last_start_offset": T.Int,
        "last_end_offset": T.Int, "deferred_lost_segment_detection_active": T.Bool,
        "procedure_timer": T.Opt(T.Obj(Countdown)), "nak_activity_counter": T.Int}
    sh[D._DestFieldWrapper] = {
        "transaction_id": T.Opt(T.Obj(TransactionId)), "remote_cfg": T.Opt(T.Obj(RemoteEntityCfg)),
        "check_timer": T.Opt(T.Obj(Countdown)), "current_check_count": T.Int, "closure_requested": T.Bool,
        "checksum_type": T.Enum(ChecksumType), "finished_params": T.Obj(FinishedParams),
        "completion_disposition": T.Enum(D.CompletionDisposition), "pdu_conf": T.Obj(PduConfig),
        "fp": T.Obj(D._DestFileParams), "acked_params": T.Obj(D._AckedModeParams),
        "positive_ack_params": T.Obj(_PositiveAckProcedureParams)}
    sh[D.DestHandler] = {
        "cfg": T.Obj(LocalEntityCfg), "remote_cfg_table": T.Obj(RemoteEntityCfgTable), "states": T.Obj(D.DestStateWrapper),
        "user": T.Obj(CfdpUserBase), "check_timer_provider": T.Obj(CheckTimerProvider),
        "_params": T.Obj(D._DestFieldWrapper), "_pdus_to_be_sent": T.Queue}
    sh[D.FsmResult] = {"states": T.Obj(D.DestStateWrapper)}
    # ---- source handler
    sh[S.SourceStateWrapper] = {"state": T.Enum(CfdpState), "step": T.Enum(S.TransactionStep), "_num_packets_ready": T.Int}
    sh[S._SourceFileParams] = {"progress": T.Int, "segment_len": T.Int, "crc32": T.Opt(T.Bytes), "metadata_only": T.Bool,
                               "file_size": T.Opt(T.Int), "empty_file": T.Bool}
    sh[S._AckedModeParams] = {"step_before_retransmission": T.Opt(T.Enum(S.TransactionStep)),
                              "segment_reqs_to_handle": T.Opt(T.Pair), "segment_req_index": T.Int}
    sh[S._TransferFieldWrapper] = {
        "transaction_id": T.Opt(T.Obj(TransactionId)), "check_timer": T.Opt(T.Obj(Countdown)),
        "positive_ack_params": T.Obj(_PositiveAckProcedureParams), "cond_code_eof": T.Opt(T.Enum(ConditionCode)),
        "ack_params": T.Obj(S._AckedModeParams), "fp": T.Obj(S._SourceFileParams),
        "finished_params": T.Opt(T.Obj(FinishedParams)), "remote_cfg": T.Opt(T.Obj(RemoteEntityCfg)),
        "closure_requested": T.Bool, "pdu_conf": T.Obj(PduConfig)}
    sh[PutRequest] = {
        "destination_id": UBF, "source_file": T.Opt(T.Path), "dest_file": T.Opt(T.Path),
        "trans_mode": T.Opt(T.Enum(TransmissionMode)), "closure_requested": T.Opt(T.Bool),
        "seg_ctrl": T.Opt(T.Enum(SegmentationControl)), "fault_handler_overrides": T.Opt(T.Opaque),
        "flow_label_tlv": T.Opt(T.Opaque), "msgs_to_user": T.Opt(T.ObjList(MessageToUserTlv)), "fs_requests": T.Opt(T.Opaque)}
    sh[S.SourceHandler] = {
        "states": T.Obj(S.SourceStateWrapper), "cfg": T.Obj(LocalEntityCfg), "user": T.Obj(CfdpUserBase),
        "remote_cfg_table": T.Obj(RemoteEntityCfgTable), "seq_num_provider": T.Obj(ProvidesSeqCount),
        "check_timer_provider": T.Obj(CheckTimerProvider), "_params": T.Obj(S._TransferFieldWrapper),
        "_put_req": T.Opt(T.Obj(PutRequest)), "_pdus_to_be_sent": T.Queue}
    sh[S.FsmResult] = {"states": T.Obj(S.SourceStateWrapper)}


def conformance(w):
    """Cross-check the shape tables against really constructed objects.  Returns a list of mismatches."""
    import dataclasses
    import cfdppy.handler.dest as D
    import cfdppy.handler.source as S
    from cfdppy.handler.common import _PositiveAckProcedureParams
    from cfdppy.mib import IndicationCfg, LocalEntityCfg, RemoteEntityCfg
    from cfdppy.request import PutRequest
    from spacepackets.util import ByteFieldU8

    problems = []

    def chk(obj):
        cls = type(obj)
        shape = w.shape_of(cls)
        names = set(vars(obj))
        if shape is None:
            problems.append(f"no shape for {cls.__name__}")
        elif set(shape) != names:
            problems.append(f"{cls.__name__}: shape {sorted(shape)} != real attributes {sorted(names)}")

    for mk in [D.LostSegmentTracker, D.DestStateWrapper, D._DestFileParams.empty, D._AckedModeParams, D._DestFieldWrapper,
               _PositiveAckProcedureParams, S.SourceStateWrapper, S._SourceFileParams.empty, S._AckedModeParams,
               lambda: S._TransferFieldWrapper(ByteFieldU8(1)), IndicationCfg,
               lambda: PutRequest(ByteFieldU8(1), None, None, None, None)]:
        chk(mk())
    for cls in [RemoteEntityCfg, LocalEntityCfg]:
        shape = w.shape_of(cls)
        fields = {f.name for f in dataclasses.fields(cls)}
        if set(shape) != fields:
            problems.append(f"{cls.__name__}: shape {sorted(shape)} != dataclass fields {sorted(fields)}")
    return problems
