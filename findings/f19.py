import sys; sys.path.insert(0,'/verif/design_probes')
from h import *
from spacepackets.cfdp import Direction
from spacepackets.cfdp.pdu.helper import PduFactory
from cfdppy.handler.common import get_packet_destination
import tempfile
d=tempfile.mkdtemp()
src,dst,log=mk()
f=Path(d)/"e"; f.write_bytes(b"abcdefgh")
src.put_request(PutRequest(DST_ID, f, Path(d)/"o", None, None))
src.state_machine(); drain(src)
conf=PduConfig(SRC_ID,DST_ID,ByteFieldU16(0),TransmissionMode.ACKNOWLEDGED)
ack=AckPdu(conf, DirectiveType.FINISHED_PDU, ConditionCode.NO_ERROR, TransactionStatus.ACTIVE)
raw=bytearray(ack.pack()); raw[0]|=0x08   # direction bit -> towards sender
p=PduFactory.from_raw(bytes(raw)); print(type(p).__name__, p.direction, get_packet_destination(p))
try:
    src.state_machine(p); print("admitted by the source handler, step", src.step)
except Exception as e:
    print("refused:", type(e).__name__)
