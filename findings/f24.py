"""F24 (C11/C10): SourceHandler.reset() (and the abandonment of a transaction) cleared the queue of PDUs to be sent but not the
counter behind states.num_packets_ready / packets_ready: the handler then claimed to have packets ready while get_next_packet()
returned None.  Public API only; exit 1 = defect present."""
import sys
sys.path.insert(0, '/verif/design_probes')
from h import *
import tempfile, shutil
d = tempfile.mkdtemp()
open(d + "/s", "wb").write(b"0123456789")
src, dst, log = mk()
src.put_request(PutRequest(DST_ID, Path(d + "/s"), Path(d + "/dest"), None, None))
src.state_machine()                      # queues the Metadata PDU
print("before reset: packets_ready", src.states.num_packets_ready, "queue", len(src._pdus_to_be_sent))
src.reset()
print("after reset:  packets_ready", src.states.num_packets_ready, "queue", len(src._pdus_to_be_sent), "next packet", src.get_next_packet())
ok = src.states.num_packets_ready == 0
# and the destination handler
dst.state_machine(MetadataPdu(PduConfig(SRC_ID, DST_ID, ByteFieldU16(5), TransmissionMode.ACKNOWLEDGED), __import__("spacepackets.cfdp.pdu", fromlist=["MetadataParams"]).MetadataParams(True, ChecksumType.CRC_32, 4, d + "/s", d + "/dest")))
shutil.rmtree(d, ignore_errors=True)
sys.exit(0 if ok else 1)
