from cfdppy.handler.dest import _AckedModeParams
a=_AckedModeParams(); b=_AckedModeParams()
a.lost_seg_tracker.add_lost_segment((0,2))
assert b.lost_seg_tracker.lost_segments=={}, b.lost_seg_tracker.lost_segments
print("ok")
