import sys; sys.path.insert(0,'/verif/design_probes')
from h import *
from spacepackets.cfdp import Direction
from spacepackets.cfdp.pdu.helper import PduFactory
import tempfile
d=tempfile.mkdtemp()
src,dst,log=mk()
f=Path(d)/"e"; f.write_bytes(b"abcdefgh")
src.put_request(PutRequest(DST_ID, f, Path(d)/"o", None, None))
src.state_machine(); drain(src)
conf=PduConfig(SRC_ID,DST_ID,ByteFieldU16(0),TransmissionMode.ACKNOWLEDGED)
fd=FileDataPdu(conf, FileDataParams(b"4567",4))
raw=bytearray(fd.pack()); raw[0]|=0x08   # direction bit -> towards sender
p=PduFactory.from_raw(bytes(raw)); print(type(p).__name__, p.direction)
try:
    src.state_machine(p)
except Exception as e:
    print(type(e).__name__, e)
