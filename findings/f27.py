"""F27 (C13): a metadata-only put request with closure in unacknowledged mode waited for the Finished PDU without a check timer:
if that PDU was lost the sender stayed busy forever instead of cancelling with Check Limit Reached.  Real handlers through
contracts/sim.py (public API only); exit 1 = defect present."""
import sys
sys.path.insert(0, '/verif')
from contracts.sim import run_case
r, viol = run_case({"cfg": {"size": None, "mode": "unack", "closure": True}, "script": [["silent", "ds", 0]]}, workdir="/verif/.work")
cl = [f for f in r.faults if f[0] == "S" and f[2] == "CHECK_LIMIT_REACHED"]
print("sender fault callbacks:", cl, "sender state:", r.src.states.state.name)
sys.exit(0 if cl and r.src.states.state.name == "IDLE" else 1)
