"""F25 (C02): a metadata-only put request in acknowledged mode without closure never completed cleanly: the sender finished
right after the Metadata PDU, the receiver sent its Finished PDU (acknowledged mode always does) and waited for an ACK that never
came, ran into the Positive ACK Limit, cancelled and was abandoned.  Real handlers through contracts/sim.py (public API only);
exit 1 = defect present."""
import sys
sys.path.insert(0, '/verif')
from contracts.sim import run_case
r, viol = run_case({"cfg": {"size": None, "closure": False}, "script": []}, workdir="/verif/.work")
print("fault callbacks:", r.faults)
print("violations:", viol[:2])
sys.exit(1 if viol or r.faults else 0)
