"""F16 (C12): an EOF (cancel) PDU that arrives before the Metadata PDU (acknowledged mode) was handled like an EOF (no error): the
transaction was not cancelled and the announced size was re-requested.  Public API only; exit 1 = defect present."""
import sys
sys.path.insert(0, '/verif/design_probes')
from h import *
conf = PduConfig(SRC_ID, DST_ID, ByteFieldU16(5), TransmissionMode.ACKNOWLEDGED)
src, dst, log = mk(imm=False)
dst.state_machine(EofPdu(conf, b"\0\0\0\0", 4, condition_code=ConditionCode.CANCEL_REQUEST_RECEIVED)); out = drain(dst)
for _ in range(3):
    dst.state_machine(); out += drain(dst)
print([desc(p) for p in out])
fin = [e for e in log if e[0] == 'D' and e[1] == 'finished']
print(fin)
naks = [p for p in out if type(p).__name__ == "NakPdu"]
ok = not naks and fin and fin[0][2] == "CANCEL_REQUEST_RECEIVED"
sys.exit(0 if ok else 1)
