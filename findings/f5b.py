import sys; sys.path.insert(0,'/verif/design_probes')
from h import *
from spacepackets.cfdp.pdu.helper import PduFactory
import tempfile
def w(p): return PduFactory.from_raw(bytes(p.pack()))
src,dst,log=mk(imm=True)
conf=PduConfig(ByteFieldU16(1),ByteFieldU16(2),ByteFieldU16(5),TransmissionMode.ACKNOWLEDGED)
d=tempfile.mkdtemp()
dst.state_machine(w(MetadataPdu(conf, MetadataParams(True, ChecksumType.CRC_32, 10, "s", str(Path(d)/"o"))))); drain(dst)
for off,data in [(4,b"45"),(8,b"89")]:
    dst.state_machine(w(FileDataPdu(conf, FileDataParams(data,off)))); drain(dst)
print(dst._params.acked_params.lost_seg_tracker.lost_segments)
try:
    dst.state_machine(w(FileDataPdu(conf, FileDataParams(b"2345",2)))); print("no internal error; tracker", dst._params.acked_params.lost_seg_tracker.lost_segments)
except ValueError as e:
    print("LEAK ValueError:", e); sys.exit(1)
