import tempfile, logging
from pathlib import Path
from cfdppy.filestore import NativeFilestore, FilestoreResult as F
logging.disable(logging.CRITICAL)
d=Path(tempfile.mkdtemp()); fs=NativeFilestore()
(d/"a").write_bytes(b"x")
r=fs.rename_file(d/"a", d/"nodir"/"b"); print(r.name); assert r==F.RENAME_NOT_PERFORMED and (d/"a").exists()
