import sys; sys.path.insert(0,'/verif/design_probes')
from h import *
from spacepackets.cfdp.pdu.helper import PduFactory
def w(p): return PduFactory.from_raw(bytes(p.pack()))
conf=PduConfig(ByteFieldU16(1),ByteFieldU16(2),ByteFieldU16(5),TransmissionMode.ACKNOWLEDGED)
ok=True
# (a) out-of-order file data before metadata
src,dst,log=mk(imm=False)
dst.state_machine(w(FileDataPdu(conf, FileDataParams(b"89AB",8)))); drain(dst)
dst.state_machine(w(FileDataPdu(conf, FileDataParams(b"0123",0)))); drain(dst)
t=dst._params.acked_params.lost_seg_tracker.lost_segments; print("a", t, dst.progress); ok &= (t=={0:12} and dst.progress==12)
# (b) file data after the EOF while still waiting for metadata
src,dst,log=mk(imm=False)
dst.state_machine(w(EofPdu(conf, b"\0\0\0\0", 12))); drain(dst); dst.state_machine(); drain(dst)
dst.state_machine(w(FileDataPdu(conf, FileDataParams(b"0123",0)))); drain(dst)
t=dst._params.acked_params.lost_seg_tracker.lost_segments; print("b", t, dst.progress); ok &= (t=={0:12} and dst.progress==12)
sys.exit(0 if ok else 1)
