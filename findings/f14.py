import sys; sys.path.insert(0,'/verif/design_probes')
from h import *
import tempfile
d=tempfile.mkdtemp()
src,dst,log=mk(mode=TransmissionMode.UNACKNOWLEDGED, closure=False)
for i in range(2):
    f=Path(d)/f"e{i}"; f.write_bytes(b"")
    print(src.put_request(PutRequest(DST_ID, f, Path(d)/f"o{i}", TransmissionMode.UNACKNOWLEDGED, False)))
    for k in range(6):
        try:
            src.state_machine()
        except Exception as e:
            print("EXC", type(e).__name__, e); break
        print(i,k,[desc(p) for p in drain(src)], src.state, src.step)
        if src.state==CfdpState.IDLE: break
