import sys; sys.path.insert(0,'/verif/design_probes')
from h import *
from spacepackets.cfdp.pdu.helper import PduFactory
def w(p): return PduFactory.from_raw(bytes(p.pack()))
src,dst,log=mk(imm=True)
conf=PduConfig(ByteFieldU16(1),ByteFieldU16(2),ByteFieldU16(5),TransmissionMode.ACKNOWLEDGED)
import zlib, tempfile
d=tempfile.mkdtemp()
md=MetadataPdu(conf, MetadataParams(True, ChecksumType.CRC_32, 8, "s", str(Path(d)/"o")))
dst.state_machine(w(md)); drain(dst)
# F5b: FD(8,4) -> lost (0,8); FD(4,8) straddles
dst.state_machine(w(FileDataPdu(conf, FileDataParams(b"89AB",8)))); print([desc(p) for p in drain(dst)])
try:
    dst.state_machine(w(FileDataPdu(conf, FileDataParams(b"4567",4)))); print("ok", [desc(p) for p in drain(dst)], dst._params.acked_params.lost_seg_tracker.lost_segments)
    dst.state_machine(w(FileDataPdu(conf, FileDataParams(b"456789AB",4)))); print("straddle handled", [desc(p) for p in drain(dst)], dst._params.acked_params.lost_seg_tracker.lost_segments)
except Exception as e:
    print("EXC", type(e).__name__, e); sys.exit(1)
# F5a: new handler: metadata, EOF size 8 with FD(0,4) missing -> deferred; then FD(12,4) beyond EOF with gap
src,dst,log=mk(imm=True)
dst.state_machine(w(md)); drain(dst)
dst.state_machine(w(FileDataPdu(conf, FileDataParams(b"4567",4)))); drain(dst)
dst.state_machine(w(EofPdu(conf, zlib.crc32(b"01234567").to_bytes(4,"big"), 8))); drain(dst)
dst.state_machine(); drain(dst)
print(dst.step)
try:
    dst.state_machine(w(FileDataPdu(conf, FileDataParams(b"CDEF",12)))); a=drain(dst); print([desc(p) for p in a], dst.step)
    dst.state_machine(); print([desc(p) for p in drain(dst)], dst.step)
except Exception as e:
    print("EXC", type(e).__name__, e); sys.exit(1)
