import sys; sys.path.insert(0,'/verif/design_probes')
from h import *
src,dst,log=mk(mode=TransmissionMode.UNACKNOWLEDGED, closure=True)
print(src.put_request(PutRequest(DST_ID, None, None, None, None)))
for i in range(3):
    src.state_machine(); print([desc(p) for p in drain(src)], src.step)
try:
    print(src.cancel_request(src.transaction_id), [desc(p) for p in drain(src)], src.state)
except Exception as e:
    print("EXC", type(e).__name__, e)
