"""F23 (C14): in unacknowledged mode an EOF (no error) whose checksum does not match yet made the receiver declare the File
Checksum Failure fault twice (in _checksum_verify and again in _handle_no_error_eof): two callbacks for one event.
Public API only; exit 1 = defect present."""
import sys, tempfile, shutil
sys.path.insert(0, '/verif/design_probes')
from h import *
from spacepackets.cfdp.pdu import MetadataParams
conf = PduConfig(SRC_ID, DST_ID, ByteFieldU16(5), TransmissionMode.UNACKNOWLEDGED)
src, dst, log = mk(mode=TransmissionMode.UNACKNOWLEDGED, closure=False)
d = tempfile.mkdtemp()
dst.state_machine(MetadataPdu(conf, MetadataParams(False, ChecksumType.CRC_32, 8, d + "/s", d + "/dest"))); drain(dst)
dst.state_machine(EofPdu(conf, b"\x12\x34\x56\x78", 8)); drain(dst)      # EOF overtakes all file data
cbs = [e for e in log if e[0] == 'D' and len(e) > 2 and e[2] == 'FILE_CHECKSUM_FAILURE']
print("File Checksum Failure callbacks for one EOF:", cbs)
shutil.rmtree(d, ignore_errors=True)
sys.exit(0 if len(cbs) == 1 else 1)
