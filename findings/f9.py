import tempfile, logging
from pathlib import Path
from cfdppy.filestore import NativeFilestore, FilestoreResult as F
logging.disable(logging.CRITICAL)
d=Path(tempfile.mkdtemp()); fs=NativeFilestore()
(d/"a").mkdir(); (d/"a"/"f").write_bytes(b"x")
r=fs.remove_directory(d/"a", False); print(r.name); assert r==F.REMOVE_DIR_NOT_ALLOWED and (d/"a"/"f").exists()
r=fs.create_directory(d/"nope"/"sub"); print(r.name); assert r==F.CREATE_DIR_CAN_NOT_BE_CREATED
