"""F22 (C12): an EOF (cancel) received while lost segments are tracked still starts the deferred NAK procedure; when the NAK
limit is then reached the transaction finishes with NAK_LIMIT_REACHED (local entity as fault location) instead of the
condition code of the EOF PDU.  Public API only; exit 1 = defect present."""
import sys
sys.path.insert(0, '/verif/design_probes')
from h import *
conf = PduConfig(SRC_ID, DST_ID, ByteFieldU16(5), TransmissionMode.ACKNOWLEDGED)
src, dst, log = mk(imm=False, limit=2)
import tempfile
d = tempfile.mkdtemp()
from spacepackets.cfdp.pdu import MetadataParams
dst.state_machine(MetadataPdu(conf, MetadataParams(True, ChecksumType.CRC_32, 24, d + "/s", d + "/dest"))); drain(dst)
dst.state_machine(FileDataPdu(conf, FileDataParams(b"01234567", 0))); drain(dst)
dst.state_machine(FileDataPdu(conf, FileDataParams(b"GHIJKLMN", 16))); drain(dst)   # gap 8..16
dst.state_machine(EofPdu(conf, b"\0\0\0\0", 24, condition_code=ConditionCode.CANCEL_REQUEST_RECEIVED)); out = drain(dst)
naks = []
for _ in range(6):
    dst.state_machine(); o = drain(dst); naks += [desc(p) for p in o if type(p).__name__ == "NakPdu"]
    fins = [p for p in o if type(p).__name__ == "FinishedPdu"]
    if fins: break
    advance(1100)
fin = [e for e in log if e[0] == 'D' and e[1] == 'finished']
print("NAKs after the EOF (cancel):", naks)
print("finished:", fin)
bad = bool(naks) or not fin or fin[0][2] != "CANCEL_REQUEST_RECEIVED"
shutil.rmtree(d, ignore_errors=True)
sys.exit(1 if bad else 0)
