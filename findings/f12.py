import sys; sys.path.insert(0,'/verif/design_probes')
from h import *
import tempfile
d=tempfile.mkdtemp()
src,dst,log=mk(mode=TransmissionMode.UNACKNOWLEDGED, closure=False)
f=Path(d)/"e"; f.write_bytes(b"")
src.put_request(PutRequest(DST_ID, f, Path(d)/"o", TransmissionMode.UNACKNOWLEDGED, False))
src.state_machine(); tid=src.transaction_id; drain(src); src.state_machine()
print(src.state, src.num_packets_ready)
print(src.cancel_request(tid))
