"""F13b / F13c (C06, C10): while the Metadata PDU is still missing (step WAITING_FOR_METADATA)
 (b) an EOF PDU that announces less than the data already seen, and
 (c) a File Data PDU that reaches beyond the file size of an EOF PDU received earlier
were accepted without a File Size Error and moved progress / the re-requested extent.  Public API only; exit 1 = defect present."""
import sys
sys.path.insert(0, '/verif/design_probes')
from h import *
conf = PduConfig(SRC_ID, DST_ID, ByteFieldU16(5), TransmissionMode.ACKNOWLEDGED)
bad = False
# (b) FD(0,8) then EOF(size 4)
src, dst, log = mk(imm=False)
dst.state_machine(FileDataPdu(conf, FileDataParams(b"01234567", 0))); drain(dst)
dst.state_machine(EofPdu(conf, b"\0\0\0\0", 4)); drain(dst)
fs = [e for e in log if e[0] == 'D' and e[1] == 'cancel']
print("b: fault callbacks", fs, "progress", dst.progress, "step", dst.states.step.name)
bad |= not (fs and fs[0][2] == "FILE_SIZE_ERROR") or dst.progress != 8
# (c) EOF(size 8) then FD(8,4)
src, dst, log = mk(imm=False)
dst.state_machine(EofPdu(conf, b"\0\0\0\0", 8)); drain(dst); dst.state_machine(); drain(dst)
dst.state_machine(FileDataPdu(conf, FileDataParams(b"89AB", 8))); out = drain(dst)
fs = [e for e in log if e[0] == 'D' and e[1] == 'cancel']
print("c: fault callbacks", fs, "progress", dst.progress, "NAKs", [desc(p) for p in out])
bad |= not (fs and fs[0][2] == "FILE_SIZE_ERROR") or dst.progress != 8 or any(type(p).__name__ == "NakPdu" for p in out)
sys.exit(1 if bad else 0)
