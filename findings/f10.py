import sys; sys.path.insert(0,'/verif/design_probes')
from h import *
from spacepackets.cfdp.pdu.helper import PduFactory
import tempfile
d=tempfile.mkdtemp()
# max packet len so that exactly 1 segment request fits: header 4+2+2+2=10, +1 +8 = 19, +8 per request -> 27
src,dst,log=mk(imm=False, maxpkt=27, seg=4)
conf=PduConfig(ByteFieldU16(1),ByteFieldU16(2),ByteFieldU16(5),TransmissionMode.ACKNOWLEDGED)
def w(p): return PduFactory.from_raw(bytes(p.pack()))
# metadata lost; FD(4,4) arrives, EOF arrives
dst.state_machine(w(FileDataPdu(conf, FileDataParams(b"4567",4)))); drain(dst)
dst.state_machine(w(EofPdu(conf, b"\0\0\0\0", 12))); print([desc(p) for p in drain(dst)])
dst.state_machine(); out=drain(dst)
for p in out: print(desc(p), len(p.pack()))
assert all(len(p.pack())<=27 for p in out)
