import tempfile
from pathlib import Path
from cfdppy.filestore import NativeFilestore
from spacepackets.cfdp import ChecksumType
d=tempfile.mkdtemp(); f=Path(d)/"x"; f.write_bytes(bytes(range(1,11)))
fs=NativeFilestore()
def ref(b):
    s=0
    for i in range(0,len(b),4): s+=int.from_bytes(b[i:i+4].ljust(4,b"\0"),"big")
    return (s%2**32).to_bytes(4,"big")
for n in range(0,12):
    got=fs.calculate_checksum(ChecksumType.MODULAR,f,n); exp=ref(bytes(range(1,11))[:n])
    assert got==exp,(n,got,exp)
print("ok")
