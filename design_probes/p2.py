from h import *
d=tempfile.mkdtemp(prefix='cfdpscr'); 
try:
    sf=Path(d)/'s.bin'; df=Path(d)/'d.bin'; sf.write_bytes(b'0123456789AB')
    src,dst,log=mk(limit=3)
    src.put_request(PutRequest(DST_ID,sf,df,None,None))
    src.state_machine(); md=drain(src)[0]
    src.state_machine(); fd0=drain(src)[0]
    src.state_machine(); fd1=drain(src)[0]
    print('cancel ->', src.cancel_request(src.transaction_id))
    eofc=drain(src); print([desc(p) for p in eofc], src.step)
    # dest gets md, fd1 (fd0 lost), eof cancel
    dst.state_machine(md); print([desc(p) for p in drain(dst)])
    dst.state_machine(fd1); naks=drain(dst); print([desc(p) for p in naks])
    dst.state_machine(eofc[0]); out=drain(dst); print('after eofc', dst.step, [desc(p) for p in out])
    dst.state_machine(); out2=drain(dst); print('next', dst.step, [desc(p) for p in out2])
    # give EOF ack + naks to source
    for p in out+out2+naks:
        try:
            src.state_machine(p); r=drain(src); print(' src got',desc(p),'->',[desc(x) for x in r], src.step)
            for x in r:
                dst.state_machine(x); rr=drain(dst); print('   dst got',desc(x),'->',[desc(y) for y in rr], dst.step)
                for y in rr:
                    src.state_machine(y); print('     src got', desc(y), [desc(z) for z in drain(src)], src.step)
        except Exception as e: print('EXC',type(e).__name__,e)
    for i in range(3):
        dst.state_machine(); rr=drain(dst); print('dst idle call', dst.step, [desc(y) for y in rr])
        for y in rr:
            src.state_machine(y); zz=drain(src); print('     src got', desc(y), [desc(z) for z in zz], src.step)
            for z in zz: dst.state_machine(z); print('   dst',dst.step, [desc(q) for q in drain(dst)])
        src.state_machine(); 
    print(log); print(df.read_bytes() if df.exists() else None)
    # source timer: re-sent cancel EOF
finally:
    shutil.rmtree(d)
