# Feasibility: coalesce_lost_segments loop invariant in z3 (hand-written VCs in the shape pyvc would generate)
from z3 import *
import time
I=IntSort(); B=BoolSort()
dom=Array('dom',I,B); val=Array('val',I,I); keys=Array('keys',I,I); n=Int('n')
def view(dom,val,x):
    k=FreshInt('k'); return Exists([k], And(dom[k], k<=x, x<val[k]))
q,q2,x,j,j2=Ints('q q2 x j j2')
# input dict well-formed & sorted, order enumerates dom
inp=And(n>=2,
  ForAll([q], Implies(And(0<=q,q<n), And(dom[keys[q]], keys[q]<val[keys[q]], keys[q]>=0))),
  ForAll([q], Implies(And(0<=q,q<n-1), val[keys[q]]<=keys[q+1])),     # sorted + disjoint (consecutive)
  ForAll([q,q2], Implies(And(0<=q,q<q2,q2<n), keys[q]<keys[q2])),
  ForAll([x], Implies(dom[x], Exists([q], And(0<=q,q<n,keys[q]==x)))))
def Inv(i,m,mk,mv,cs,ce):
    return And(0<=i,i<=n, m>=0, cs<ce, cs>=0,
      # cur is a run ending at item i-1 (or the first item when i==0)
      If(i==0, And(cs==keys[0], ce==val[keys[0]]), ce==val[keys[i-1]]),
      Exists([q], And(0<=q, q<=If(i==0,0,i-1), cs==keys[q])),
      # I1 cur range within input view
      ForAll([x], Implies(And(cs<=x,x<ce), view(dom,val,x))),
      # I4 merged ranges within input view, nonempty
      ForAll([j], Implies(And(0<=j,j<m), And(mk[j]<mv[j], mk[j]>=0))),
      ForAll([j,x], Implies(And(0<=j,j<m,mk[j]<=x,x<mv[j]), view(dom,val,x))),
      # I2 every processed item covered
      ForAll([q], Implies(And(0<=q,q<i), Or(Exists([j], And(0<=j,j<m, mk[j]<=keys[q], val[keys[q]]<=mv[j])), And(cs<=keys[q], val[keys[q]]<=ce)))),
      # I3 same key => later is larger
      ForAll([j,j2], Implies(And(0<=j,j<j2,j2<m, mk[j]==mk[j2]), mv[j]<=mv[j2])),
      ForAll([j], Implies(And(0<=j,j<m, mk[j]==cs), mv[j]<=ce)),
      # I5 distinct keys => strictly separated & ascending
      ForAll([j,j2], Implies(And(0<=j,j<j2,j2<m, mk[j]!=mk[j2]), mv[j]<mk[j2])),
      ForAll([j], Implies(And(0<=j,j<m, mk[j]!=cs), mv[j]<cs)),
      ForAll([j], Implies(And(0<=j,j<m), mk[j]<=cs)),
      # everything not yet processed lies at/after ce
      Implies(i<n, ce<=keys[If(i==0,1,i)]) if False else True,
    )
def check(name, hyps, goal, to=60000):
    s=Solver(); s.set('timeout',to); s.add(*hyps); s.add(Not(goal)); t=time.time(); r=s.check(); print(name, 'PROVED' if r==unsat else r, '%.2fs'%(time.time()-t)); return r
mk=Array('mk',I,I); mv=Array('mv',I,I); m,i,cs,ce=Ints('m i cs ce')
# init
check('init', [inp], Inv(IntVal(0),IntVal(0),mk,mv,keys[0],val[keys[0]]))
# step
s_=keys[i]; e_=val[keys[i]]
hyp=[inp, Inv(i,m,mk,mv,cs,ce), i<n]
# need: s_ >= ce (sortedness) -- lemma
check('lemma seg_start>=ce', hyp, s_>=ce if True else True)
check('step-merge', hyp+[s_==ce], Inv(i+1,m,mk,mv,cs,e_))
mk2=Store(mk,m,cs); mv2=Store(mv,m,ce)
check('step-new', hyp+[s_!=ce], Inv(i+1,m+1,mk2,mv2,s_,e_))
