from h import *
from spacepackets.cfdp.pdu.helper import PduFactory
from spacepackets.cfdp import FaultHandlerCode
from cfdppy.filestore import NativeFilestore
def wire(p): return PduFactory.from_raw(bytes(p.pack()))
d=tempfile.mkdtemp(prefix='cfdpscr')
try:
    sf=Path(d)/'s.bin'; df=Path(d)/'d.bin'; sf.write_bytes(b'0123456789AB')
    # C10c: dest ABANDON on positive ack limit
    src,dst,log=mk(limit=1)
    dst.cfg.default_fault_handlers.set_handler(ConditionCode.POSITIVE_ACK_LIMIT_REACHED, FaultHandlerCode.ABANDON_TRANSACTION)
    src.put_request(PutRequest(DST_ID,sf,df,None,None))
    pk=[]
    for i in range(6): src.state_machine(); pk+=drain(src)
    for p in pk: dst.state_machine(wire(p)); drain(dst)
    dst.state_machine(); print(dst.step.name, [desc(x) for x in drain(dst)])
    advance(1001)
    try: dst.state_machine(); print('after expiry', dst.state.name, dst.step.name)
    except Exception as e: print('C10c EXC', type(e).__name__, e, dst.state.name)
    # C08: second request invalid
    src,dst,log=mk(limit=3); src.put_request(PutRequest(DST_ID,sf,df,None,None))
    src.state_machine(); md=drain(src)[0]; src.state_machine(); drain(src)
    conf=copy.copy(md.pdu_header.pdu_conf)
    try: src.state_machine(NakPdu(conf,0,12,[(0,4),(9,3)]))
    except Exception as e: print('C08 EXC', type(e).__name__, 'queued:', [desc(x) for x in drain(src)], src.step.name)
    # C12: idle source with undrained queue
    src,dst,log=mk(mode=TransmissionMode.UNACKNOWLEDGED); src.put_request(PutRequest(DST_ID,sf,df,None,None))
    src.state_machine(); drain(src); src.state_machine(); drain(src); tid=src.transaction_id
    src.cancel_request(tid); print('state', src.state.name, 'ready', src.num_packets_ready)
    try: print('cancel again ->', src.cancel_request(tid))
    except Exception as e: print('C12 EXC', type(e).__name__)
    # S6: put_request with undrained queue
    print('put again', src.put_request(PutRequest(DST_ID,sf,df,None,None)), 'counter', src.num_packets_ready, 'queue', len(src._pdus_to_be_sent))
    # C17
    fs=NativeFilestore(); dd=Path(d)/'dir'; fs.create_directory(dd); (dd/'f').write_bytes(b'x')
    print('C17 rmdir nonempty ->', fs.remove_directory(dd, False).name)
    for name,fn in [('mkdir missing parent', lambda: fs.create_directory(Path(d)/'no'/'sub')), ('write to dir', lambda: fs.write_data(dd,b'x',0)), ('truncate dir', lambda: fs.truncate_file(dd)), ('rename missing->dir', lambda: fs.rename_file(Path(d)/'nope', dd))]:
        try: print('C17', name, '->', fn())
        except Exception as e: print('C17', name, 'EXC', type(e).__name__)
finally:
    shutil.rmtree(d)
