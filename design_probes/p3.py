from h import *
d=tempfile.mkdtemp(prefix='cfdpscr'); 
try:
    sf=Path(d)/'s.bin'; df=Path(d)/'d.bin'; sf.write_bytes(b'0123456789AB')
    src,dst,log=mk(limit=3)
    src.put_request(PutRequest(DST_ID,sf,df,None,None))
    src.state_machine(); md=drain(src)[0]
    src.state_machine(); fd0=drain(src)[0]
    conf=copy.copy(md.pdu_header.pdu_conf)
    def nak(reqs, s=0,e=100):
        return NakPdu(copy.copy(conf), s, e, reqs)
    for reqs in [[(0,20)], [(2,100)], [(4,4)], [(5,3)], [(4,9)], [(0,0),(0,2)], [(3,3)]]:
        try:
            src.state_machine(nak(reqs)); r=drain(src); print(reqs,'->',[ (desc(x), bytes(x.file_data) if isinstance(x,FileDataPdu) else None) for x in r], src.step, src.progress)
            src.state_machine(); r=drain(src); print('   then', [desc(x) for x in r], src.step, src.progress)
        except Exception as e:
            print(reqs,'EXC',type(e).__name__,e, src.step, [desc(x) for x in drain(src)])
finally:
    shutil.rmtree(d)
