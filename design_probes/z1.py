# Feasibility: hand-written VCs for LostSegmentTracker.remove_lost_segment (map encoding) -- what pyvc would generate
from z3 import *
import time
I=IntSort(); B=BoolSort()
dom=Array('dom',I,B); val=Array('val',I,I)
a,b=Ints('a b')
def view(dom,val,x):
    k=FreshInt('k'); return Exists([k], And(dom[k], k<=x, x<val[k]))
def wf(dom,val):
    k,k2=Ints('wk wk2')
    return And(ForAll([k], Implies(dom[k], k<val[k])),
               ForAll([k,k2], Implies(And(dom[k],dom[k2],k!=k2), Or(val[k]<=k2, val[k2]<=k))))
x=Int('x')
# precondition of the property: the range lies within one tracked range or touches none
j=Int('j')
within=Exists([j], And(dom[j], j<=a, b<=val[j]))
touches_none=ForAll([x], Implies(And(a<=x,x<b), Not(view(dom,val,x))))
pre=And(wf(dom,val), a<b, Or(within,touches_none))
def check(name, hyps, goal):
    s=Solver(); s.set('timeout',20000); s.add(*hyps); s.add(Not(goal)); t=time.time(); r=s.check(); print(name, 'PROVED' if r==unsat else r, '%.2fs'%(time.time()-t)); 
    if r==sat: print(s.model())
# path 1: get(a) is not None, b == end  -> pop(a)
end=val[a]
p1=[pre, dom[a], b==end]
dom1=Store(dom,a,False)
goal=ForAll([x], view(dom1,val,x)==And(view(dom,val,x), Not(And(a<=x,x<b))))
check('path pop-exact: view', p1, goal)
check('path pop-exact: wf', p1, wf(dom1,val))
# path 2: get(a) not None, b<end -> pop(a); update({b:end})
p2=[pre, dom[a], b<end]
dom2=Store(Store(dom,a,False),b,True); val2=Store(val,b,end)
goal=ForAll([x], view(dom2,val2,x)==And(view(dom,val,x), Not(And(a<=x,x<b))))
check('path pop-split: view', p2, goal)
check('path pop-split: wf', p2, wf(dom2,val2))
# path 3: get(a) not None, b> end -> raises ValueError; precondition 'within or touches none' must exclude? No: straddle is outside the pre; check that under pre this path is infeasible
check('path straddle infeasible under pre', [pre, dom[a]], Not(b>end))
# path 4: a not key; loop found seg s<a<e ; b==e: update({s:a})
s_,e_=Ints('s e')
p4=[pre, Not(dom[a]), dom[s_], e_==val[s_], s_<a, a<e_, b==e_]
val4=Store(val,s_,a)
goal=ForAll([x], view(dom,val4,x)==And(view(dom,val,x), Not(And(a<=x,x<b))))
check('path inner-tail: view', p4, goal); check('path inner-tail: wf', p4, wf(dom,val4))
# path 5: b<e : update({s:a}); update({b:e})
p5=[pre, Not(dom[a]), dom[s_], e_==val[s_], s_<a, a<e_, b<e_]
val5=Store(Store(val,s_,a),b,e_); dom5=Store(dom,b,True)
goal=ForAll([x], view(dom5,val5,x)==And(view(dom,val,x), Not(And(a<=x,x<b))))
check('path inner-split: view', p5, goal); check('path inner-split: wf', p5, wf(dom5,val5))
# path 6: loop exits without finding: forall k in dom. not (k<a<val[k]); a not key  => view unchanged wrt removal (touches none)
k=Int('k')
p6=[pre, Not(dom[a]), ForAll([k], Implies(dom[k], Not(And(k<a,a<val[k]))))]
goal=ForAll([x], view(dom,val,x)==And(view(dom,val,x), Not(And(a<=x,x<b))))
check('path not-found: view unchanged', p6, goal)
print('--- mutants (must NOT prove) ---')
val4m=Store(val,s_,a+1)
check('MUT inner-tail a+1', p4, ForAll([x], view(dom,val4m,x)==And(view(dom,val,x), Not(And(a<=x,x<b)))))
dom2m=Store(dom,b,True)  # forgot pop
check('MUT pop-split no pop', p2, ForAll([x], view(dom2m,val2,x)==And(view(dom,val,x), Not(And(a<=x,x<b)))))
val5m=Store(val,s_,a) # forgot reinsertion
check('MUT inner-split no reinsertion', p5, ForAll([x], view(dom,val5m,x)==And(view(dom,val,x), Not(And(a<=x,x<b)))))
