"""Scratch probing harness (design exploration only)."""
import os, sys, tempfile, shutil, copy
from pathlib import Path
from datetime import timedelta
import spacepackets.countdown as cd
from spacepackets.cfdp import ChecksumType, ConditionCode, TransactionId, TransmissionMode, PduConfig
from spacepackets.cfdp.pdu import *
from spacepackets.cfdp.pdu.file_data import FileDataParams
from spacepackets.countdown import Countdown
from spacepackets.seqcount import SeqCountProvider
from spacepackets.util import ByteFieldU16, ByteFieldU8
from cfdppy import CfdpState
from cfdppy.handler.dest import DestHandler
from cfdppy.handler.source import SourceHandler
from cfdppy.mib import *
from cfdppy.request import PutRequest
from cfdppy.user import CfdpUserBase

NOW = [1_000_000]
cd.time_ms = lambda: NOW[0]
def advance(ms): NOW[0] += ms

class FH(DefaultFaultHandlerBase):
    def __init__(self, name, log): super().__init__(); self.name=name; self.log=log
    def notice_of_suspension_cb(self, t, c, p): self.log.append((self.name,'susp',c.name,p))
    def notice_of_cancellation_cb(self, t, c, p): self.log.append((self.name,'cancel',c.name,p))
    def abandoned_cb(self, t, c, p): self.log.append((self.name,'abandon',c.name,p))
    def ignore_cb(self, t, c, p): self.log.append((self.name,'ignore',c.name,p))

class User(CfdpUserBase):
    def __init__(self, name, log, vfs=None): super().__init__(vfs); self.name=name; self.log=log
    def transaction_indication(self, p): self.log.append((self.name,'transaction'))
    def eof_sent_indication(self, t): self.log.append((self.name,'eof_sent'))
    def transaction_finished_indication(self, p):
        fp=p.finished_params; self.log.append((self.name,'finished',fp.condition_code.name,fp.delivery_code.name,fp.file_status.name))
    def metadata_recv_indication(self, p): self.log.append((self.name,'metadata_recv'))
    def file_segment_recv_indication(self, p): self.log.append((self.name,'seg_recv',p.offset,p.length))
    def report_indication(self, t, s): pass
    def suspended_indication(self, t, c): pass
    def resumed_indication(self, t, p): pass
    def fault_indication(self, t, c, p): pass
    def abandoned_indication(self, t, c, p): pass
    def eof_recv_indication(self, t): self.log.append((self.name,'eof_recv'))

class CTP(CheckTimerProvider):
    def provide_check_timer(self, l, r, e): return Countdown(timedelta(milliseconds=1000))

SRC_ID=ByteFieldU16(1); DST_ID=ByteFieldU16(2)
def mk(mode=TransmissionMode.ACKNOWLEDGED, seg=4, closure=True, crc=ChecksumType.CRC_32, imm=True, limit=2, maxpkt=512, disp=False):
    log=[]
    rc_src=RemoteEntityCfg(entity_id=SRC_ID,max_packet_len=maxpkt,max_file_segment_len=seg,closure_requested=closure,crc_on_transmission=False,default_transmission_mode=mode,crc_type=crc,positive_ack_timer_interval_seconds=1.0,positive_ack_timer_expiration_limit=limit,check_limit=limit,immediate_nak_mode=imm,nak_timer_interval_seconds=1.0,nak_timer_expiration_limit=limit,disposition_on_cancellation=disp)
    rc_dst=copy.copy(rc_src); rc_dst.entity_id=DST_ID
    tbl=RemoteEntityCfgTable([rc_src,rc_dst])
    src=SourceHandler(LocalEntityCfg(SRC_ID,IndicationCfg(),FH('S',log)),User('S',log),tbl,CTP(),SeqCountProvider(16))
    dst=DestHandler(LocalEntityCfg(DST_ID,IndicationCfg(),FH('D',log)),User('D',log),tbl,CTP())
    return src,dst,log

def drain(h):
    out=[]
    while True:
        p=h.get_next_packet()
        if p is None: break
        out.append(p.pdu)
    return out
def desc(p):
    n=type(p).__name__
    if n=='FileDataPdu': return f'FD({p.offset},{len(p.file_data)})'
    if n=='NakPdu': return f'NAK({p.start_of_scope},{p.end_of_scope},{p.segment_requests})'
    if n=='EofPdu': return f'EOF({p.condition_code.name},{p.file_size},{p.file_checksum.hex()})'
    if n=='FinishedPdu': return f'FIN({p.condition_code.name},{p.delivery_code.name},{p.file_status.name})'
    if n=='AckPdu': return f'ACK({p.directive_code_of_acked_pdu.name},{p.condition_code_of_acked_pdu.name})'
    if n=='MetadataPdu': return f'MD({p.file_size})'
    return n
