# Design validation only: does the C06 invariant I wrote down hold on the real dest handler over random grid histories?
from h import *
import random, itertools
from spacepackets.cfdp.pdu.helper import PduFactory
from spacepackets.cfdp.pdu.metadata import MetadataParams
from cfdppy.filestore import NativeFilestore
def wire(p): return PduFactory.from_raw(bytes(p.pack()))
class RecFS(NativeFilestore):
    def __init__(s): s.stored=set()
    def write_data(s,file,data,offset):
        super().write_data(file,data,offset); s.stored|=set(range(offset,offset+len(data)))
    def truncate_file(s,f): super().truncate_file(f); s.stored=set()
    def create_file(s,f): s.stored=set(); return super().create_file(f)
def view(t): 
    v=set()
    for a,b in t.lost_segments.items(): v|=set(range(a,b))
    return v
bad={}
def run(seed,imm):
    rnd=random.Random(seed); d=tempfile.mkdtemp(prefix='cfdpscr')
    try:
        F=rnd.randint(0,14); g=rnd.randint(1,5); data=bytes(rnd.randrange(256) for _ in range(F))
        df=Path(d)/'d.bin'
        _,dst,log=mk(seg=g,imm=imm,limit=50); fs=RecFS(); dst.user.vfs=fs; dst._params.acked_params.lost_seg_tracker.reset()
        conf=PduConfig(SRC_ID,DST_ID,ByteFieldU16(7),TransmissionMode.ACKNOWLEDGED)
        md=MetadataPdu(conf,MetadataParams(True,ChecksumType.CRC_32,F,'/x/s.bin',df.as_posix()))
        import zlib,struct
        eof=EofPdu(conf,struct.pack('!I',zlib.crc32(data)),F)
        fds=[FileDataPdu(conf,FileDataParams(data[o:o+g],o)) for o in range(0,F,g)]
        pool=[md,eof]+fds
        hist=[rnd.choice(pool) for _ in range(rnd.randint(1,14))]
        eof_seen=False; trace=[]
        for p in hist:
            try:
                dst.state_machine(wire(p))
            except Exception as e:
                trace.append((desc(p),'EXC',type(e).__name__)); 
                if type(e).__name__ not in('PduIgnoredForDest','InvalidPduDirection'): bad.setdefault('exc:'+type(e).__name__,(seed,imm,F,g,list(trace)))
                drain(dst); continue
            out=drain(dst); trace.append((desc(p),dst.step.name,[desc(x) for x in out]))
            if dst.state.name=='IDLE': break
            ap=dst._params.acked_params; t=ap.lost_seg_tracker; lost=view(t); st=fs.stored
            if isinstance(p,EofPdu): eof_seen=True
            def flag(k): bad.setdefault(k,(seed,imm,F,g,list(trace),dict(t.lost_segments),sorted(st),ap.last_start_offset,ap.last_end_offset,dst.progress))
            if lost&st: flag('lost∩stored')
            if st and max(st)>=ap.last_end_offset and not eof_seen: flag('stored beyond last_end')
            if eof_seen and dst._params.fp.file_size_eof is not None and not ap.metadata_missing:
                if (set(range(F))-st)-lost: flag('incomplete after EOF')
            keys=list(t.lost_segments); 
            if keys!=sorted(keys): flag('unsorted')
            if any(a>=b for a,b in t.lost_segments.items()): flag('empty range')
            for x in out:
                if isinstance(x,NakPdu):
                    for (a,b) in x.segment_requests:
                        if (a,b)==(0,0):
                            if not ap.metadata_missing: flag('meta req while not missing')
                        else:
                            if not (x.start_of_scope<=a<=b<=x.end_of_scope): flag('req outside scope')
                            if set(range(a,b))&st: flag('req covers stored')
            # a second idle call to progress FSM
            try: dst.state_machine(); out=drain(dst); trace.append(('idle',dst.step.name,[desc(x) for x in out]))
            except Exception as e: bad.setdefault('exc-idle:'+type(e).__name__,(seed,imm,F,g,list(trace)))
            if dst.state.name=='IDLE': break
    finally: shutil.rmtree(d)
for s in range(20000): run(s, s%2==0)
for k,v in bad.items(): print(k,'\n   ',v)
print('done', len(bad))
