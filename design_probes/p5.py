from h import *
from spacepackets.cfdp.pdu.helper import PduFactory
from cfdppy.handler.dest import LostSegmentTracker, _AckedModeParams
from cfdppy.filestore import NativeFilestore
def wire(p): return PduFactory.from_raw(bytes(p.pack()))
d=tempfile.mkdtemp(prefix='cfdpscr'); 
try:
    # P-c shared tracker
    a=_AckedModeParams(); b=_AckedModeParams(); print('P-c shared default tracker:', a.lost_seg_tracker is b.lost_seg_tracker)
    # P-e modular checksum prefix
    f=Path(d)/'m.bin'; f.write_bytes(bytes(range(1,11)))
    fs=NativeFilestore()
    print('P-e modular full', fs.calculate_checksum(ChecksumType.MODULAR,f,10).hex(), 'prefix4', fs.calculate_checksum(ChecksumType.MODULAR,f,4).hex(), 'expected prefix4 01020304')
    print('crc32 prefix4 seg1', fs.calculate_checksum(ChecksumType.CRC_32,f,4,1).hex(), 'seg3', fs.calculate_checksum(ChecksumType.CRC_32,f,4,3).hex(), 'size>len', fs.calculate_checksum(ChecksumType.CRC_32,f,14,3).hex(), fs.calculate_checksum(ChecksumType.CRC_32,f,10,3).hex())
    # P-b tracker ValueError leak via dest
    sf=Path(d)/'s.bin'; df=Path(d)/'d.bin'; sf.write_bytes(b'0123456789ABCDEF')
    src,dst,log=mk(limit=3)
    src.put_request(PutRequest(DST_ID,sf,df,None,None))
    pk=[]
    for i in range(7):
        src.state_machine(); pk+=drain(src)
    md,fd0,fd1,fd2,fd3,eof=pk
    conf=copy.copy(md.pdu_header.pdu_conf)
    dst.state_machine(wire(md)); dst.state_machine(wire(fd0)); dst.state_machine(wire(fd3)); print([desc(x) for x in drain(dst)], dst._params.acked_params.lost_seg_tracker.lost_segments)
    dst.state_machine(wire(eof)); drain(dst); dst.state_machine(); print(dst.step.name,[desc(x) for x in drain(dst)])
    try:
        dst.state_machine(FileDataPdu(copy.copy(conf), FileDataParams(b'xxxxxx',6))); print('no exc', dst._params.acked_params.lost_seg_tracker.lost_segments)
    except Exception as e: print('P-b EXC', type(e).__name__, e)
    # P-b2 unretrieved raised though queue empty at entry: FD beyond EOF in WAITING_FOR_MISSING_DATA (immediate NAK)
    print('queue before', dst.num_packets_ready, dst.step.name)
    try:
        dst.state_machine(FileDataPdu(copy.copy(conf), FileDataParams(b'zz',20))); print('no exc', dst.step.name, [desc(x) for x in drain(dst)])
    except Exception as e: print('P-b2 EXC', type(e).__name__, e, 'queue now', dst.num_packets_ready, dst.step.name)
    print(log)
finally:
    shutil.rmtree(d)
