from h import *
from spacepackets.cfdp.pdu.helper import PduFactory
def wire(p): return PduFactory.from_raw(bytes(p.pack()))
d=tempfile.mkdtemp(prefix='cfdpscr'); 
try:
    sf=Path(d)/'s.bin'; df=Path(d)/'d.bin'; sf.write_bytes(b'0123456789AB')
    src,dst,log=mk(limit=3)
    src.put_request(PutRequest(DST_ID,sf,df,None,None))
    pk=[]
    for i in range(6):
        src.state_machine(); pk+=drain(src)
    print([desc(p) for p in pk], src.step)
    md,fd0,fd1,fd2,eof=pk
    # P-a: metadata lost; fd0..fd2 and EOF arrive; then retransmitted metadata arrives after EOF
    out=[]
    for p in [fd0,fd1,fd2,eof]:
        dst.state_machine(wire(p)); o=drain(dst); out+=o; print('dst<-',desc(p), dst.step.name,[desc(x) for x in o])
    dst.state_machine(); o=drain(dst); out+=o; print('dst idle', dst.step.name,[desc(x) for x in o])
    # now metadata retransmitted
    dst.state_machine(wire(md)); o=drain(dst); print('dst<-MD', dst.step.name,[desc(x) for x in o], 'deferred',dst.deferred_lost_segment_procedure_active)
    for p in [fd0,fd1,fd2]:
        dst.state_machine(wire(p)); o=drain(dst); print('dst<-',desc(p), dst.step.name,[desc(x) for x in o], dst._params.acked_params.lost_seg_tracker.lost_segments)
    for k in range(5):
        advance(1001); dst.state_machine(); o=drain(dst); print('expiry',k, dst.state.name, dst.step.name,[desc(x) for x in o])
    print(log)
finally:
    shutil.rmtree(d)
