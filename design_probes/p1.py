from h import *
d=tempfile.mkdtemp(prefix='cfdpscr'); 
try:
    sf=Path(d)/'s.bin'; df=Path(d)/'d.bin'; sf.write_bytes(b'0123456789')
    src,dst,log=mk(limit=2)
    src.put_request(PutRequest(DST_ID,sf,df,None,None))
    # run fault-free until dest sends Finished; then drop all dest->src
    stage=0
    for i in range(50):
        src.state_machine(); 
        for p in drain(src):
            if isinstance(p,EofPdu) or True:
                dst.state_machine(p); 
                for q in drain(dst):
                    if isinstance(q,FinishedPdu): stage=1; print('finished emitted; now silent src'); break
                    src.state_machine(q); 
                    for r in drain(src): dst.state_machine(r); drain(dst)
        if stage: break
        dst.state_machine()
        for q in drain(dst):
            if isinstance(q,FinishedPdu): stage=1; break
            src.state_machine(q)
        if stage: break
    print('dst step',dst.step, 'log',log)
    # now only timer expiries at dest
    for k in range(12):
        advance(1001)
        dst.state_machine()
        print(k, dst.state.name, dst.step.name, [desc(p) for p in drain(dst)], 'ackctr',dst.positive_ack_counter)
    print(log)
finally:
    shutil.rmtree(d)
