from h import *
from spacepackets.cfdp.pdu.helper import PduFactory
def wire(p): return PduFactory.from_raw(bytes(p.pack()))
d=tempfile.mkdtemp(prefix='cfdpscr'); 
try:
    sf=Path(d)/'s.bin'; df=Path(d)/'d.bin'; sf.write_bytes(b'0123456789AB')
    src,dst,log=mk(limit=3)
    src.put_request(PutRequest(DST_ID,sf,df,None,None))
    src.state_machine(); drain(src); src.state_machine(); drain(src); src.state_machine(); drain(src)
    print('idle cancel wrong id', src.cancel_request(TransactionId(SRC_ID, ByteFieldU16(99))))
    print('cancel', src.cancel_request(src.transaction_id), [desc(x) for x in drain(src)], src.step.name)
    advance(1001); src.state_machine(); print('expiry1', [desc(x) for x in drain(src)], src.step.name)
    advance(1001); src.state_machine(); print('expiry2', [desc(x) for x in drain(src)], src.step.name)
    advance(1001); src.state_machine(); print('expiry3', [desc(x) for x in drain(src)], src.step.name, src.state.name)
    print(log)
    # unacked cancel mid-way
    src,dst,log=mk(mode=TransmissionMode.UNACKNOWLEDGED, limit=3)
    print('idle cancel', src.cancel_request(TransactionId(SRC_ID, ByteFieldU16(0))))
    src.put_request(PutRequest(DST_ID,sf,df,None,None))
    src.state_machine(); drain(src); src.state_machine(); drain(src)
    print('cancel', src.cancel_request(src.transaction_id), [desc(x) for x in drain(src)], src.step.name, src.state.name)
    src.state_machine(); print('next', [desc(x) for x in drain(src)], src.step.name, src.state.name)
    print(log)
finally:
    shutil.rmtree(d)
