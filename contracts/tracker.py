"""C18: LostSegmentTracker refines an exact interval set.

Abstract view:  view(d, x)  <=>  exists k in dom(d): k <= x < d[k]
Representation invariant tr_wf(d): ranges non-empty and non-negative, pairwise disjoint,
iteration order ascending by start offset.
The postconditions are the property's own words (exact set difference / union, order, no empty
ranges, coalescing keeps the set and leaves no adjacent ranges, return value <=> changed, straddling
refused without change), not a transcription of the code.
"""
from __future__ import annotations

import z3

from pyvc.core import T, LoopSpec
from pyvc.spec import Clause, Contract, Lemma, RaiseClause
from pyvc.values import And_, Implies_, Not_, Or_, interval_view

from cfdppy.handler.dest import LostSegmentTracker

P = "cfdppy.handler.dest.LostSegmentTracker."
PROPS = ("C18",)


def D(r):
    return r.self.lost_segments.d


def view(d, x):
    return interval_view(d, x)


def tr_wf(d):
    k, k2, i, j = z3.Ints("tw!k tw!k2 tw!i tw!j")
    return z3.And(
        d.wf(),
        z3.ForAll([k], z3.Implies(d.dom[k], z3.And(0 <= k, k < d.val[k]))),
        z3.ForAll([k, k2], z3.Implies(z3.And(d.dom[k], d.dom[k2], k < k2), d.val[k] <= k2)),
        z3.ForAll([i, j], z3.Implies(z3.And(0 <= i, i < j, j < d.n), d.keys[i] < d.keys[j])),
    )


def same_map(d1, d2):
    k = z3.Int("sm!k")
    return z3.ForAll([k], z3.And(d1.dom[k] == d2.dom[k], z3.Implies(d1.dom[k], d1.val[k] == d2.val[k])))


X = z3.Int("x")

SELF = {"self": T.Obj(LostSegmentTracker)}

CONTRACTS = []

# ---------------------------------------------------------------------------------------------- __init__ / reset
CONTRACTS.append(Contract(
    P + "reset", arg_types=SELF, props=PROPS, modifies=["self.lost_segments"],
    requires=[],
    ensures=[
        Clause("C18.reset_empty", lambda o, n, r: z3.ForAll([X], z3.Not(view(D(n), X))), PROPS),
        Clause("C18.reset_wf", lambda o, n, r: tr_wf(D(n)), PROPS),
        Clause("C18.reset_count", lambda o, n, r: D(n).n == 0, PROPS),
    ],
))

CONTRACTS.append(Contract(
    P + "num_lost_segments", arg_types=SELF, props=PROPS, modifies=[], result=T.Int, pure=True,
    ensures=[Clause("C18.count", lambda o, n, r: r == D(o).n, PROPS)],
))

# ---------------------------------------------------------------------------------------------- add
def _add_pre(o):
    a, b = o.lost_seg
    return z3.And(tr_wf(D(o)), 0 <= a, a < b, z3.ForAll([X], z3.Implies(z3.And(a <= X, X < b), z3.Not(view(D(o), X)))))


def _key_disjoint(o, k):
    a, b = o.lost_seg
    d = D(o)
    return z3.Implies(d.dom[k], z3.Or(d.val[k] <= a, b <= k))


CONTRACTS.append(Contract(
    P + "add_lost_segment", arg_types={**SELF, "lost_seg": T.Pair}, props=PROPS, modifies=["self.lost_segments"],
    guard_requires=True,
    requires=[("disjoint_nonempty", _add_pre)],
    # key-level form of the byte-level disjointness precondition (witness byte: max(a, k))
    pre_lemmas=[Lemma("key_disjoint", 1, _key_disjoint,
                      hints=lambda o, k: [view(D(o), z3.If(k >= o.lost_seg[0], k, o.lost_seg[0]))])],
    ensures=[
        Clause("C18.add_view", lambda o, n, r: z3.ForAll([X], view(D(n), X) == z3.Or(
            view(D(o), X), z3.And(o.lost_seg[0] <= X, X < o.lost_seg[1]))), PROPS),
        Clause("C18.add_wf", lambda o, n, r: tr_wf(D(n)), PROPS),
    ],
))


# ---------------------------------------------------------------------------------------------- remove
def _within_one(o):
    a, b = o.segment_to_remove
    d = D(o)
    k = z3.Int("wo!k")
    return z3.Exists([k], z3.And(d.dom[k], k <= a, b <= d.val[k]))


def _touches_none(o):
    a, b = o.segment_to_remove
    return z3.ForAll([X], z3.Implies(z3.And(a <= X, X < b), z3.Not(view(D(o), X))))


def _straddles(o):
    a, b = o.segment_to_remove
    d = D(o)
    k = z3.Int("st!k")
    return z3.Exists([k], z3.And(d.dom[k], k <= a, a < d.val[k], d.val[k] < b))


def _rm_guard(o):
    a, b = o.segment_to_remove
    return z3.Or(a == b, _within_one(o), _touches_none(o))


def _rm_loop_inv(I, pre, env, idx, n):
    d = env.self.lost_segments.d
    d0 = pre.self.lost_segments.d
    a = env.segment_to_remove[0]
    i = z3.Int("rl!i")
    return [
        ("unchanged", same_map(d, d0)),
        ("not_found_before", z3.ForAll([i], z3.Implies(z3.And(0 <= i, i < idx), z3.Not(
            z3.And(d0.keys[i] < a, a < d0.val[d0.keys[i]]))))),
        ("flag", z3.Not(I.truth(env.did_something)) if not isinstance(env.did_something, bool) else (not env.did_something)),
    ]


CONTRACTS.append(Contract(
    P + "remove_lost_segment", arg_types={**SELF, "segment_to_remove": T.Pair}, props=PROPS,
    modifies=["self.lost_segments"], result=T.Bool, guard_requires=True, raises_outside=(ValueError,),
    requires=[("wf", lambda o: z3.And(tr_wf(D(o)), 0 <= o.segment_to_remove[0],
                                     o.segment_to_remove[0] <= o.segment_to_remove[1]))],
    ensures=[
        Clause("C18.rm_view_exact", lambda o, n, r: z3.Implies(_rm_guard(o), z3.ForAll([X], view(D(n), X) == z3.And(
            view(D(o), X), z3.Not(z3.And(o.segment_to_remove[0] <= X, X < o.segment_to_remove[1]))))), PROPS),
        Clause("C18.rm_wf", lambda o, n, r: z3.Implies(_rm_guard(o), tr_wf(D(n))), PROPS),
        # beyond the property's precondition (arbitrary ranges): the representation stays well-formed and nothing is added
        Clause("C18.rm_wf_for_any_range", lambda o, n, r: tr_wf(D(n)), PROPS),
        Clause("C18.rm_never_adds", lambda o, n, r: z3.ForAll([X], z3.Implies(view(D(n), X), view(D(o), X))), PROPS),
        Clause("C18.rm_reports_change", lambda o, n, r: z3.Implies(_rm_guard(o), r == z3.Exists([X], z3.And(
            o.segment_to_remove[0] <= X, X < o.segment_to_remove[1], view(D(o), X)))), PROPS),
    ],
    raises=[RaiseClause("C18.straddle_refused", ValueError, when=_straddles, iff=True, props=PROPS, modifies=[])],
    loops={0: LoopSpec(_rm_loop_inv, modifies=[], props=PROPS)},
))


# ---------------------------------------------------------------------------------------------- coalesce
def _as_pl(cell):
    from pyvc.values import ListCell, SPairList
    items = cell.items
    if isinstance(items, list):
        pl = SPairList.empty()
        for p in items:
            pl = pl.append(p)
        return pl
    return items


def _co_inv(I, pre, env, idx, n):
    d = pre.self.lost_segments.d
    dn = env.self.lost_segments.d
    L = _as_pl(env.merged_segments)
    m, mk, mv = L.n, L.a, L.b
    cs, ce = env.current_start, env.current_end
    q, j, j2, x = z3.Ints("ci!q ci!j ci!j2 ci!x")
    i = idx
    return [
        ("dict_unchanged", same_map(dn, d) if dn is not d else True),
        ("cur_nonempty", z3.And(m >= 0, 0 <= cs, cs < ce)),
        ("cur_end", z3.If(i == 0, z3.And(cs == d.keys[0], ce == d.val[d.keys[0]]), ce == d.val[d.keys[i - 1]])),
        ("cur_start_is_key", z3.Exists([q], z3.And(0 <= q, q <= z3.If(i == 0, 0, i - 1), cs == d.keys[q]))),
        ("cur_in_view", z3.ForAll([x], z3.Implies(z3.And(cs <= x, x < ce), view(d, x)))),
        ("merged_nonempty", z3.ForAll([j], z3.Implies(z3.And(0 <= j, j < m), z3.And(0 <= mk[j], mk[j] < mv[j])))),
        ("merged_in_view", z3.ForAll([j, x], z3.Implies(z3.And(0 <= j, j < m, mk[j] <= x, x < mv[j]), view(d, x)))),
        ("processed_covered", z3.ForAll([q], z3.Implies(z3.And(0 <= q, q < i), z3.Or(
            z3.Exists([j], z3.And(0 <= j, j < m, mk[j] <= d.keys[q], d.val[d.keys[q]] <= mv[j])),
            z3.And(cs <= d.keys[q], d.val[d.keys[q]] <= ce))))),
        ("same_key_grows", z3.ForAll([j, j2], z3.Implies(z3.And(0 <= j, j < j2, j2 < m, mk[j] == mk[j2]), mv[j] <= mv[j2]))),
        ("same_key_as_cur", z3.ForAll([j], z3.Implies(z3.And(0 <= j, j < m, mk[j] == cs), mv[j] <= ce))),
        ("distinct_separated", z3.ForAll([j, j2], z3.Implies(z3.And(0 <= j, j < j2, j2 < m, mk[j] != mk[j2]), mv[j] < mk[j2]))),
        ("distinct_before_cur", z3.ForAll([j], z3.Implies(z3.And(0 <= j, j < m, mk[j] != cs), mv[j] < cs))),
        ("keys_le_cur", z3.ForAll([j], z3.Implies(z3.And(0 <= j, j < m), mk[j] <= cs))),
    ]


def _co_lemmas():
    """Proof steps from the loop invariant (over the merged pair list) to the view of dict(merged)."""
    q, j, x, k = z3.Ints("cl!q cl!j cl!x cl!k")

    def meta(n):
        return D(n).meta

    def covered(o, n, r):
        m = meta(n)
        if m is None:
            return None
        L, d = m["pairs"], D(o)
        return z3.ForAll([q], z3.Implies(z3.And(0 <= q, q < d.n), z3.Exists([j], z3.And(
            0 <= j, j < L.n, L.a[j] <= d.keys[q], d.val[d.keys[q]] <= L.b[j]))))

    def pairs_in_view(o, n, r):
        m = meta(n)
        if m is None:
            return None
        L = m["pairs"]
        return z3.ForAll([j, x], z3.Implies(z3.And(0 <= j, j < L.n, L.a[j] <= x, x < L.b[j]), view(D(o), x)))

    def last_is_largest(o, n, r):
        m = meta(n)
        if m is None:
            return None
        L = m["pairs"]
        return z3.ForAll([j], z3.Implies(z3.And(0 <= j, j < L.n), z3.And(D(n).dom[L.a[j]], L.b[j] <= D(n).val[L.a[j]])))

    def sub(o, n, r):
        return z3.ForAll([x], z3.Implies(view(D(n), x), view(D(o), x)))

    def sup(o, n, r):
        return z3.ForAll([x], z3.Implies(view(D(o), x), view(D(n), x)))

    return [("covered", covered), ("pairs_in_view", pairs_in_view), ("last_is_largest", last_is_largest),
            ("subset", sub), ("superset", sup)]


def _no_adjacent(d):
    k, k2 = z3.Ints("na!k na!k2")
    return z3.ForAll([k, k2], z3.Implies(z3.And(d.dom[k], d.dom[k2], k < k2), d.val[k] < k2))


CONTRACTS.append(Contract(
    P + "coalesce_lost_segments", arg_types=SELF, props=PROPS, modifies=["self.lost_segments"], guard_requires=True,
    requires=[("wf", lambda o: tr_wf(D(o)))],
    ensures=[
        Clause("C18.co_view_same", lambda o, n, r: z3.ForAll([X], view(D(n), X) == view(D(o), X)), PROPS,
               lemmas=_co_lemmas()),
        Clause("C18.co_wf", lambda o, n, r: tr_wf(D(n)), PROPS),
        Clause("C18.co_no_adjacent", lambda o, n, r: z3.Implies(D(o).n > 1, _no_adjacent(D(n))), PROPS),
    ],
    loops={0: LoopSpec(_co_inv, modifies=[], props=PROPS, local_types={"merged_segments": T.PairList})},
))
