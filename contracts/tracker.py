"""C18: LostSegmentTracker refines an exact interval set.

Abstract view:  view(d, x)  <=>  exists k in dom(d): k <= x < d[k]
Representation invariant tr_wf(d): ranges non-empty and non-negative, pairwise disjoint,
iteration order ascending by start offset.
The postconditions are the property's own words (exact set difference / union, order, no empty
ranges, coalescing keeps the set and leaves no adjacent ranges, return value <=> changed, straddling
refused without change), not a transcription of the code.
"""
from __future__ import annotations

import z3

from pyvc.core import T, LoopSpec
from pyvc.spec import Clause, Contract, RaiseClause
from pyvc.values import And_, Implies_, Not_, Or_

from cfdppy.handler.dest import LostSegmentTracker

P = "cfdppy.handler.dest.LostSegmentTracker."
PROPS = ("C18",)


def D(r):
    return r.self.lost_segments.d


def view(d, x):
    k = z3.FreshInt("vk")
    return z3.Exists([k], z3.And(d.dom[k], k <= x, x < d.val[k]))


def tr_wf(d):
    k, k2, i, j = z3.Ints("tw!k tw!k2 tw!i tw!j")
    return z3.And(
        d.wf(),
        z3.ForAll([k], z3.Implies(d.dom[k], z3.And(0 <= k, k < d.val[k]))),
        z3.ForAll([k, k2], z3.Implies(z3.And(d.dom[k], d.dom[k2], k < k2), d.val[k] <= k2)),
        z3.ForAll([i, j], z3.Implies(z3.And(0 <= i, i < j, j < d.n), d.keys[i] < d.keys[j])),
    )


def same_map(d1, d2):
    k = z3.Int("sm!k")
    return z3.ForAll([k], z3.And(d1.dom[k] == d2.dom[k], z3.Implies(d1.dom[k], d1.val[k] == d2.val[k])))


X = z3.Int("x")

SELF = {"self": T.Obj(LostSegmentTracker)}

CONTRACTS = []

# ---------------------------------------------------------------------------------------------- __init__ / reset
CONTRACTS.append(Contract(
    P + "reset", arg_types=SELF, props=PROPS, modifies=["self.lost_segments"],
    requires=[],
    ensures=[
        Clause("C18.reset_empty", lambda o, n, r: z3.ForAll([X], z3.Not(view(D(n), X))), PROPS),
        Clause("C18.reset_wf", lambda o, n, r: tr_wf(D(n)), PROPS),
        Clause("C18.reset_count", lambda o, n, r: D(n).n == 0, PROPS),
    ],
))

CONTRACTS.append(Contract(
    P + "num_lost_segments", arg_types=SELF, props=PROPS, modifies=[], result=T.Int, pure=True,
    ensures=[Clause("C18.count", lambda o, n, r: r == D(o).n, PROPS)],
))

# ---------------------------------------------------------------------------------------------- add
def _add_pre(o):
    a, b = o.lost_seg
    return z3.And(tr_wf(D(o)), 0 <= a, a < b, z3.ForAll([X], z3.Implies(z3.And(a <= X, X < b), z3.Not(view(D(o), X)))))


CONTRACTS.append(Contract(
    P + "add_lost_segment", arg_types={**SELF, "lost_seg": T.Pair}, props=PROPS, modifies=["self.lost_segments"],
    requires=[("disjoint_nonempty", _add_pre)],
    ensures=[
        Clause("C18.add_view", lambda o, n, r: z3.ForAll([X], view(D(n), X) == z3.Or(
            view(D(o), X), z3.And(o.lost_seg[0] <= X, X < o.lost_seg[1]))), PROPS),
        Clause("C18.add_wf", lambda o, n, r: tr_wf(D(n)), PROPS),
    ],
))


# ---------------------------------------------------------------------------------------------- remove
def _within_one(o):
    a, b = o.segment_to_remove
    d = D(o)
    k = z3.Int("wo!k")
    return z3.Exists([k], z3.And(d.dom[k], k <= a, b <= d.val[k]))


def _touches_none(o):
    a, b = o.segment_to_remove
    return z3.ForAll([X], z3.Implies(z3.And(a <= X, X < b), z3.Not(view(D(o), X))))


def _straddles(o):
    a, b = o.segment_to_remove
    d = D(o)
    k = z3.Int("st!k")
    return z3.Exists([k], z3.And(d.dom[k], k <= a, a < d.val[k], d.val[k] < b))


def _rm_guard(o):
    a, b = o.segment_to_remove
    return z3.Or(a == b, _within_one(o), _touches_none(o))


def _rm_loop_inv(I, pre, env, idx, n):
    d = env.self.lost_segments.d
    d0 = pre.self.lost_segments.d
    a = env.segment_to_remove[0]
    i = z3.Int("rl!i")
    return [
        ("unchanged", same_map(d, d0)),
        ("not_found_before", z3.ForAll([i], z3.Implies(z3.And(0 <= i, i < idx), z3.Not(
            z3.And(d0.keys[i] < a, a < d0.val[d0.keys[i]]))))),
        ("flag", z3.Not(I.truth(env.did_something)) if not isinstance(env.did_something, bool) else (not env.did_something)),
    ]


CONTRACTS.append(Contract(
    P + "remove_lost_segment", arg_types={**SELF, "segment_to_remove": T.Pair}, props=PROPS,
    modifies=["self.lost_segments"], result=T.Bool,
    requires=[("wf", lambda o: z3.And(tr_wf(D(o)), 0 <= o.segment_to_remove[0],
                                     o.segment_to_remove[0] <= o.segment_to_remove[1]))],
    ensures=[
        Clause("C18.rm_view_exact", lambda o, n, r: z3.Implies(_rm_guard(o), z3.ForAll([X], view(D(n), X) == z3.And(
            view(D(o), X), z3.Not(z3.And(o.segment_to_remove[0] <= X, X < o.segment_to_remove[1]))))), PROPS),
        Clause("C18.rm_wf", lambda o, n, r: z3.Implies(_rm_guard(o), tr_wf(D(n))), PROPS),
        Clause("C18.rm_reports_change", lambda o, n, r: z3.Implies(_rm_guard(o), r == z3.Exists([X], z3.And(
            o.segment_to_remove[0] <= X, X < o.segment_to_remove[1], view(D(o), X)))), PROPS),
    ],
    raises=[RaiseClause("C18.straddle_refused", ValueError, when=_straddles, iff=True, props=PROPS, modifies=[])],
    loops={0: LoopSpec(_rm_loop_inv, modifies=[], props=PROPS)},
))
