"""C14 (configuration API part): the fault-handler table of cfdppy.mib.DefaultFaultHandlerBase."""
from __future__ import annotations

import z3

from cfdppy.mib import DefaultFaultHandlerBase
from spacepackets.cfdp import ConditionCode, FaultHandlerCode, TransactionId

from pyvc.core import T
from pyvc.spec import Clause, Contract, RaiseClause
from pyvc.values import And_, Eq_, Implies_, Not_, Or_, to_z3_int

from .common import CC, FH, FAULT_CONDITIONS, table_inv_exact, one_of
from .dest import fault_cbs, tid_eq

P = "cfdppy.mib.DefaultFaultHandlerBase."
SELF = {"self": T.Obj(DefaultFaultHandlerBase)}
CONTRACTS = []


def D(o):
    return o.self._handler_dict.d


def in_table(o, c):
    return D(o).dom[to_z3_int(c)]


K = z3.Int("mib!k")

CONTRACTS.append(Contract(
    P + "__init__", arg_types=SELF, props=("C14",), result=None, modifies=["self._handler_dict"],
    setup=lambda interp, roots: roots["self"].f.pop("_handler_dict"),
    ensures=[
        Clause("C14.table_has_exactly_the_applicable_conditions", lambda o, n, r: And_(
            *[D(n).dom[int(c)] for c in FAULT_CONDITIONS],
            z3.ForAll([K], z3.Implies(D(n).dom[K], z3.Or(*[K == int(c) for c in FAULT_CONDITIONS]))),
            D(n).n == len(FAULT_CONDITIONS)), ("C14",)),
        Clause("C14.documented_defaults", lambda o, n, r: And_(*[
            D(n).val[int(c)] == int(FH.IGNORE_ERROR if c in (CC.FILE_CHECKSUM_FAILURE, CC.UNSUPPORTED_CHECKSUM_TYPE)
                                    else FH.NOTICE_OF_CANCELLATION) for c in FAULT_CONDITIONS]), ("C14", "C13")),
    ], modular=False))

CONTRACTS.append(Contract(
    P + "get_fault_handler", arg_types={**SELF, "condition": T.Enum(ConditionCode)}, props=("C14",),
    result=T.Opt(T.Enum(FaultHandlerCode)), modifies=[],
    requires=[("table", lambda o: table_inv_exact(D(o)))],
    ensures=[Clause("C14.lookup", lambda o, n, r: And_(
        Implies_(in_table(o, o.condition), Eq_(r, D(o).val[to_z3_int(o.condition)])),
        Implies_(Not_(in_table(o, o.condition)), Eq_(r, None))), ("C14",))],
    modular=False))

CONTRACTS.append(Contract(
    P + "set_handler", arg_types={**SELF, "condition": T.Enum(ConditionCode), "handler": T.Enum(FaultHandlerCode)},
    props=("C14",), result=None, modifies=["self._handler_dict"],
    requires=[("table", lambda o: table_inv_exact(D(o)))],
    ensures=[
        Clause("C14.set_updates_exactly_that_entry", lambda o, n, r: And_(
            D(n).val[to_z3_int(o.condition)] == to_z3_int(o.handler),
            z3.ForAll([K], z3.And(D(n).dom[K] == D(o).dom[K],
                                  z3.Implies(z3.And(D(o).dom[K], K != to_z3_int(o.condition)), D(n).val[K] == D(o).val[K]))),
            D(n).n == D(o).n), ("C14",)),
        Clause("C14.table_invariant_kept", lambda o, n, r: table_inv_exact(D(n)), ("C14",)),
    ],
    raises=[RaiseClause("C14.conditions_outside_the_table_are_refused", ValueError, iff=True,
                        when=lambda o: Not_(in_table(o, o.condition)), props=("C14",), modifies=[])],
    modular=False))


def _one_cb_of_kind(o, n):
    f = fault_cbs(n)
    if len(f) != 1:
        return False
    e = f[0]
    code = D(o).val[to_z3_int(o.condition)]
    kind = {"notice_of_cancellation_cb": FH.NOTICE_OF_CANCELLATION, "notice_of_suspension_cb": FH.NOTICE_OF_SUSPENSION,
            "ignore_cb": FH.IGNORE_ERROR, "abandoned_cb": FH.ABANDON_TRANSACTION}[e["name"]]
    return And_(code == int(kind), Eq_(e["cond"], o.condition), Eq_(e["progress"], o.progress),
                tid_eq(e["transaction_id"], o.transaction_id))


CONTRACTS.append(Contract(
    P + "report_fault", arg_types={**SELF, "transaction_id": T.Obj(TransactionId), "condition": T.Enum(ConditionCode),
                                   "progress": T.Int}, props=("C14",), result=None, modifies=[],
    requires=[("table", lambda o: table_inv_exact(D(o)))],
    ensures=[Clause("C14.exactly_one_callback_of_the_configured_kind", lambda o, n, r: _one_cb_of_kind(o, n), ("C14",))],
    raises=[RaiseClause("C14.conditions_outside_the_table_are_refused", ValueError, iff=True,
                        when=lambda o: Not_(in_table(o, o.condition)), props=("C14",), modifies=[])],
    effects={"fault_cb"}, modular=False))

for _c in CONTRACTS:
    # the handlers execute these methods inline (on their own, weaker, quantifier-free table invariant)
    _c.check_pre_when_inlined = False
