"""Input classes of the recorded known findings (see /verif/known_findings.json).  Each maps the
symbolic pre-state `o` of the verified function to the formula describing exactly the inputs on
which the recorded defect manifests; a failed obligation counts as that finding only if it is
discharged once this class is excluded."""
import z3

from spacepackets.cfdp.pdu import EofPdu, FileDataPdu
from spacepackets.cfdp import TransmissionMode

from .common import CC, FH, ACK, handler_for, table_of, eq, ne
from pyvc.values import And_, Or_, Not_


def _pkt(o):
    p = getattr(o, "packet", None)
    if p is None and getattr(o, "packet_holder", None) is not None:
        p = o.packet_holder.pdu
        p = getattr(p, "val", p)
    return p


def _some_abandon(o):
    """some fault condition the destination handler can declare is configured as ABANDON_TRANSACTION"""
    d = table_of(o.self)
    return Or_(*[handler_for(d, c) == int(FH.ABANDON_TRANSACTION) for c in (
        CC.FILESTORE_REJECTION, CC.FILE_CHECKSUM_FAILURE, CC.CHECK_LIMIT_REACHED, CC.FILE_SIZE_ERROR, CC.NAK_LIMIT_REACHED,
        CC.POSITIVE_ACK_LIMIT_REACHED)])


def _acked_transaction(o):
    """acknowledged mode (only there NAK PDUs are queued by the handler): the running or the just-opened transaction"""
    p = _pkt(o)
    fs = [eq(o.self._params.pdu_conf.trans_mode, ACK)]
    if p is not None:
        fs.append(eq(p.pdu_conf.trans_mode, ACK))
    return Or_(*fs)


def _file_data_packet(o):
    p = _pkt(o)
    return p is not None and p.cls is FileDataPdu


def _eof_packet(o):
    p = _pkt(o)
    return p is not None and p.cls is EofPdu


def _cancel_eof(o):
    e = getattr(o, "eof_pdu", None) or _pkt(o)
    if e is None or e.cls is not EofPdu:
        return False
    return ne(e.condition_code, CC.NO_ERROR)


FINDING_CLASSES = {
    "F5c": _some_abandon,
    "F26": _eof_packet,
}
