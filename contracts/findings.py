"""Input classes of the recorded known findings (see /verif/known_findings.json).  Each maps the
symbolic pre-state `o` of the verified function to the formula describing exactly the inputs on
which the recorded defect manifests; a failed obligation counts as that finding only if it is
discharged once this class is excluded."""
import z3

from .common import CC, FH, handler_for, table_of
from pyvc.values import Or_


def _some_abandon(o):
    """some fault condition the destination handler can declare is configured as ABANDON_TRANSACTION"""
    d = table_of(o.self)
    return Or_(*[handler_for(d, c) == int(FH.ABANDON_TRANSACTION) for c in (
        CC.FILESTORE_REJECTION, CC.FILE_CHECKSUM_FAILURE, CC.CHECK_LIMIT_REACHED, CC.FILE_SIZE_ERROR, CC.NAK_LIMIT_REACHED,
        CC.POSITIVE_ACK_LIMIT_REACHED)])


FINDING_CLASSES = {"F5c": _some_abandon}
