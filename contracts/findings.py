"""Input classes of the recorded known findings (see /verif/known_findings.json).  Each maps the
symbolic pre-state `o` of the verified function to the formula describing exactly the inputs on
which the recorded defect manifests; a failed obligation counts as that finding only if it is
discharged once this class is excluded."""
FINDING_CLASSES = {}
