"""C09: file checksums of cfdppy.filestore.NativeFilestore and cfdppy.crc, over byte sequences.

Spec functions: CRC_t (uninterpreted per type; crcmod is tied to it by the assumed streaming contract update(a);update(b) ==
update(a+b), digest() == CRC_t(bytes fed)), modsum (recursive sum of zero-padded big-endian 4-byte words mod 2^32).
"""
from __future__ import annotations

import z3

from cfdppy.filestore import NativeFilestore
from cfdppy.exceptions import ChecksumNotImplemented
from spacepackets.cfdp import ChecksumType

from pyvc.core import T, LoopSpec, isnone, val
from pyvc.spec import Clause, Contract, RaiseClause
from pyvc.values import And_, ByteSeq, Eq_, Implies_, Not_, Or_, SBytes, to_z3_int

from .common import eq, ne, one_of
from stubs.oslib import CRC, from_bytes_be, ljust4, u32_be, seq_of

P = "cfdppy.filestore.NativeFilestore."
SELF = {"self": T.Obj(NativeFilestore)}
CONTRACTS = []
PROPS = ("C09",)


def K0():
    return z3.Array("hfs0.kind", z3.DeclareSort("Path"), z3.IntSort())


from pyvc.values import PathSort  # noqa: E402

KIND0 = z3.Array("hfs0.kind", PathSort, z3.IntSort())
CONTENT0 = z3.Array("hfs0.content", PathSort, ByteSeq)


def content(o):
    return CONTENT0[o.file_path.p]


def prefix(o, size):
    c = content(o)
    n = z3.If(size < 0, 0, z3.If(size > z3.Length(c), z3.Length(c), size))
    return z3.Extract(c, 0, n)


def is_file(o):
    return KIND0[o.file_path.p] == 1


def _hostfs_setup(interp, roots):
    from stubs.oslib import hfs
    hfs(interp)  # creates the ghost file system state named hfs0.*


# ---------------------------------------------------------------------------------------------- modular checksum (crc.py)
_ms_memo = {}


def modsum(c, limit):
    """number-valued spec: k -> sum over j < k of the zero-padded big-endian word c[4j : min(4j+4, limit)]"""
    key = c.get_id()
    if key not in _ms_memo:
        from pyvc.values import DEFN_AXIOMS
        F = z3.Function(f"modsum_words{len(_ms_memo)}", z3.IntSort(), z3.IntSort(), z3.IntSort())
        k, lim = z3.Int("ms!k"), z3.Int("ms!lim")
        w = z3.If(4 * (k - 1) + 4 <= lim, 4, lim - 4 * (k - 1))
        # definitional axiom (recursive spec function), instantiated by E-matching on F(lim, k)
        DEFN_AXIOMS[F.name()] = [z3.ForAll([lim, k], F(lim, k) == z3.If(
            k <= 0, 0, F(lim, k - 1) + from_bytes_be(ljust4(z3.Extract(c, 4 * (k - 1), w)))), patterns=[F(lim, k)])]
        _ms_memo[key] = (F, c)
    F = _ms_memo[key][0]
    return lambda k: F(limit, k)


def _limit(o):
    c = content(o)
    ln = z3.Length(c)
    s = o.size_to_verify
    from pyvc.values import SOpt
    if isinstance(s, SOpt):
        return z3.If(s.isnone, ln, z3.If(s.val > ln, ln, z3.If(s.val < 0, 0, s.val)))
    if s is None:
        return ln
    return z3.If(s > ln, ln, z3.If(s < 0, 0, s))


def _rem_ok(size, rem, pos):
    from pyvc.values import SOpt
    size_none = isnone(size)
    rem_none = isnone(rem)
    if size_none is True or size is None:
        return rem_none if not isinstance(rem_none, bool) else rem_none
    sv, rv = val(size), val(rem)
    if rv is None:
        return Not_(True) if size_none is False else size_none
    same = (rem_none == size_none) if not (isinstance(rem_none, bool) and isinstance(size_none, bool)) else (rem_none == size_none)
    if isinstance(rem_none, bool) and not isinstance(size_none, bool):
        same = (size_none == z3.BoolVal(rem_none))
    if isinstance(size_none, bool) and not isinstance(rem_none, bool):
        same = (rem_none == z3.BoolVal(size_none))
    return And_(same, Implies_(Not_(rem_none), rv == sv - pos))


def _mc_inv(I, pre, env, idx, n):
    c = content(pre)
    lim = _limit(pre)
    f = modsum(c, lim)
    pos = env.file.pos
    rem = env.remaining
    return [
        ("position", And_(0 <= pos, pos <= lim, Or_(pos % 4 == 0, pos == lim))),
        ("remaining", _rem_ok(pre.size_to_verify, rem, pos)),
        ("partial_sum", env.checksum == f((pos + 3) / 4)),
        ("file_unchanged", True),
    ]


CONTRACTS.append(Contract(
    "cfdppy.crc.calc_modular_checksum", arg_types={"file_path": T.Path, "size_to_verify": T.Opt(T.Int)}, props=PROPS,
    result=T.BytesContent, setup=_hostfs_setup, modifies=[],
    requires=[("size_non_negative", lambda o: And_(*( [val(o.size_to_verify) >= 0] if o.size_to_verify is not None else [])))],
    ensures=[
        Clause("C09.modular_checksum_of_prefix", lambda o, n, r: And_(
            r.seq == u32_be(modsum(content(o), _limit(o))((_limit(o) + 3) / 4) % (2 ** 32)), z3.Length(r.seq) == 4), PROPS),
    ],
    raises=[RaiseClause("C09.missing_file", FileNotFoundError, props=PROPS, modifies=[], when=lambda o: KIND0[o.file_path.p] == 0, iff=True),
            RaiseClause("C09.directory", IsADirectoryError, props=PROPS, modifies=[], when=lambda o: KIND0[o.file_path.p] == 2, iff=True)],
    loops={0: LoopSpec(_mc_inv, modifies=["file.pos"], props=PROPS, local_types={"remaining": T.Opt(T.Int)},
                       variant=lambda I, env, idx, n: None)},
    effects={"hostfs"}, modular=True))
CONTRACTS[-1].loops[0].variant = None


# ---------------------------------------------------------------------------------------------- CRC types (filestore.py)
def _crc_name(o):
    return None


def _cc_inv(I, pre, env, idx, n):
    c = content(pre)
    ln = z3.Length(c)
    off = env.current_offset
    fed = env.crc_obj.fed
    return [
        ("offset_range", And_(0 <= off, off <= pre.size_to_verify)),
        ("fed_is_prefix", fed == z3.Extract(c, 0, z3.If(off > ln, ln, off))),
    ]


def _result_ok(o, r):
    t = o.checksum_type
    c_null = r == bytes(4) if isinstance(r, bytes) else False
    if isinstance(r, bytes):
        return And_(eq(t, ChecksumType.NULL_CHECKSUM), r == bytes(4))
    rs = r.seq
    return And_(
        ne(t, ChecksumType.NULL_CHECKSUM),
        Implies_(eq(t, ChecksumType.CRC_32), rs == CRC["crc32"](prefix(o, o.size_to_verify))),
        Implies_(eq(t, ChecksumType.CRC_32C), rs == CRC["crc32c"](prefix(o, o.size_to_verify))),
        Implies_(eq(t, ChecksumType.MODULAR), rs == u32_be(modsum(content(o), _limit(o))((_limit(o) + 3) / 4) % (2 ** 32))),
        z3.Length(rs) == 4)


CC_ARGS = {**SELF, "checksum_type": T.Enum(ChecksumType), "file_path": T.Path, "size_to_verify": T.Int, "segment_len": T.Int}

CONTRACTS.append(Contract(
    P + "calculate_checksum", arg_types=CC_ARGS, props=PROPS, result=T.BytesContent, setup=_hostfs_setup, modifies=[],
    requires=[("prefix_length", lambda o: o.size_to_verify >= 0), ("positive_chunk_length", lambda o: o.segment_len >= 1)],
    ensures=[
        # the result is a function of (type, content, prefix length) only: chunk length independence is immediate
        Clause("C09.checksum_of_prefix", lambda o, n, r: _result_ok(o, r), PROPS),
        Clause("C09.file_system_untouched", lambda o, n, r: len([e for e in n.trace if e["kind"] == "hostfs"]) == 0, ("C09", "C17")),
    ],
    raises=[
        RaiseClause("C09.missing_file", FileNotFoundError, props=PROPS, modifies=[],
                    when=lambda o: And_(ne(o.checksum_type, ChecksumType.NULL_CHECKSUM), KIND0[o.file_path.p] == 0), iff=True),
        RaiseClause("C09.directory", IsADirectoryError, props=PROPS, modifies=[],
                    when=lambda o: And_(ne(o.checksum_type, ChecksumType.NULL_CHECKSUM), KIND0[o.file_path.p] == 2)),
        RaiseClause("C09.unsupported_type", ChecksumNotImplemented, props=PROPS, modifies=[],
                    when=lambda o: Not_(one_of(o.checksum_type, [ChecksumType.NULL_CHECKSUM, ChecksumType.MODULAR,
                                                                  ChecksumType.CRC_32, ChecksumType.CRC_32C]))),
    ],
    loops={0: LoopSpec(_cc_inv, modifies=["crc_obj.fed", "file.pos"], props=PROPS,
                       variant=lambda I, env, idx, n: I.ctx.pre_roots.size_to_verify - env.current_offset)},
    effects={"hostfs"}, modular=True))
CONTRACTS[-1].contract_callees = {"cfdppy.crc.calc_modular_checksum"}

CONTRACTS.append(Contract(
    "cfdppy.filestore.VirtualFilestore.verify_checksum", arg_types={**SELF, "checksum": T.BytesContent, "checksum_type": T.Enum(ChecksumType), "file_path": T.Path,
                                      "size_to_verify": T.Int, "segment_len": T.Int},
    props=PROPS, result=T.Bool, setup=_hostfs_setup, modifies=[],
    requires=[("prefix_length", lambda o: o.size_to_verify >= 0), ("positive_chunk_length", lambda o: o.segment_len >= 1),
              ("four_bytes", lambda o: z3.Length(o.checksum.seq) == 4)],
    ensures=[
        Clause("C09.verify_iff_equal", lambda o, n, r: And_(
            Implies_(eq(o.checksum_type, ChecksumType.NULL_CHECKSUM), r == (o.checksum.seq == seq_of(bytes(4)))),
            Implies_(eq(o.checksum_type, ChecksumType.CRC_32), r == (o.checksum.seq == CRC["crc32"](prefix(o, o.size_to_verify)))),
            Implies_(eq(o.checksum_type, ChecksumType.CRC_32C), r == (o.checksum.seq == CRC["crc32c"](prefix(o, o.size_to_verify)))),
            Implies_(eq(o.checksum_type, ChecksumType.MODULAR), r == (o.checksum.seq == u32_be(
                modsum(content(o), _limit(o))((_limit(o) + 3) / 4) % (2 ** 32))))), PROPS),
    ],
    raises=[
        RaiseClause("C09.missing_file", FileNotFoundError, props=PROPS, modifies=[],
                    when=lambda o: And_(ne(o.checksum_type, ChecksumType.NULL_CHECKSUM), KIND0[o.file_path.p] == 0), iff=True),
        RaiseClause("C09.directory", IsADirectoryError, props=PROPS, modifies=[],
                    when=lambda o: And_(ne(o.checksum_type, ChecksumType.NULL_CHECKSUM), KIND0[o.file_path.p] == 2)),
        RaiseClause("C09.unsupported_type", ChecksumNotImplemented, props=PROPS, modifies=[],
                    when=lambda o: Not_(one_of(o.checksum_type, [ChecksumType.NULL_CHECKSUM, ChecksumType.MODULAR,
                                                                  ChecksumType.CRC_32, ChecksumType.CRC_32C]))),
    ],
    effects={"hostfs"}, modular=False))
CONTRACTS[-1].contract_callees = {P + "calculate_checksum"}


# ==============================================================================================
# C17: NativeFilestore operations against the reference file-system model (kind/content maps of stubs/oslib.py)
# ==============================================================================================
from cfdppy.filestore import FilestoreResult as FR  # noqa: E402
from stubs.oslib import path_parent, path_desc, zeros_of  # noqa: E402

P17 = ("C17",)
Q = z3.Const("c17!q", PathSort)


def fs_after(n):
    g = n.interp.ctx.ghost["hfs"]
    return g["kind"], g["content"]


def unchanged_tree(n):
    k, c = fs_after(n)
    return z3.ForAll([Q], z3.And(k[Q] == KIND0[Q], z3.Implies(KIND0[Q] == 1, c[Q] == CONTENT0[Q])))


def only_changed(n, *paths):
    """every path other than the given ones keeps its kind and (for files) its content"""
    k, c = fs_after(n)
    return z3.ForAll([Q], z3.Implies(z3.And(*[Q != p for p in paths]),
                                     z3.And(k[Q] == KIND0[Q], z3.Implies(KIND0[Q] == 1, c[Q] == CONTENT0[Q]))))


def kind0(p):
    return KIND0[p.p]


def status(r, table):
    """the returned status code is exactly the one the reference model prescribes for the case that holds"""
    return And_(*[Implies_(cond, r is code) for cond, code in table])


def C17(name, args, ensures, raises=(), result=T.Opaque, requires=()):
    c = Contract(P + name, arg_types={**SELF, **args}, props=P17, result=result, setup=_hostfs_setup, modifies=[],
                 requires=list(requires), ensures=ensures, raises=list(raises), effects={"hostfs"}, modular=False)
    CONTRACTS.append(c)
    return c


def parent_is_dir(p):
    return KIND0[path_parent(p.p)] == 2


C17("create_file", {"file": T.Path}, [
    Clause("C17.create.status", lambda o, n, r: status(r, [
        (kind0(o.file) != 0, FR.CREATE_NOT_ALLOWED), (And_(kind0(o.file) == 0, Not_(parent_is_dir(o.file))), FR.CREATE_NOT_ALLOWED),
        (And_(kind0(o.file) == 0, parent_is_dir(o.file)), FR.CREATE_SUCCESS)]), P17),
    Clause("C17.create.effect", lambda o, n, r: (lambda k, c: And_(
        Implies_(r is FR.CREATE_SUCCESS, And_(k[o.file.p] == 1, z3.Length(c[o.file.p]) == 0, only_changed(n, o.file.p))),
        Implies_(r is not FR.CREATE_SUCCESS, unchanged_tree(n))))(*fs_after(n)), P17),
])

C17("delete_file", {"file": T.Path}, [
    Clause("C17.delete.status", lambda o, n, r: status(r, [
        (kind0(o.file) == 0, FR.DELETE_FILE_DOES_NOT_EXIST), (kind0(o.file) == 2, FR.DELETE_NOT_ALLOWED),
        (kind0(o.file) == 1, FR.DELETE_SUCCESS)]), P17),
    Clause("C17.delete.effect", lambda o, n, r: (lambda k, c: And_(
        Implies_(r is FR.DELETE_SUCCESS, And_(k[o.file.p] == 0, only_changed(n, o.file.p))),
        Implies_(r is not FR.DELETE_SUCCESS, unchanged_tree(n))))(*fs_after(n)), P17),
])

C17("rename_file", {"old_file": T.Path, "new_file": T.Path}, [
    Clause("C17.rename.status", lambda o, n, r: (lambda a, b: status(r, [
        (Or_(a == 2, b == 2), FR.RENAME_NOT_PERFORMED),
        (And_(a == 0, b != 2), FR.RENAME_OLD_FILE_DOES_NOT_EXIST),
        (And_(a == 1, b == 1), FR.RENAME_NEW_FILE_DOES_EXIST),
        (And_(a == 1, b == 0, Not_(parent_is_dir(o.new_file))), FR.RENAME_NOT_PERFORMED),
        (And_(a == 1, b == 0, parent_is_dir(o.new_file)), FR.RENAME_SUCCESS)]))(kind0(o.old_file), kind0(o.new_file)), P17),
    Clause("C17.rename.effect", lambda o, n, r: (lambda k, c: And_(
        Implies_(r is FR.RENAME_SUCCESS, And_(k[o.new_file.p] == 1, c[o.new_file.p] == CONTENT0[o.old_file.p], k[o.old_file.p] == 0,
                                              only_changed(n, o.old_file.p, o.new_file.p))),
        Implies_(r is not FR.RENAME_SUCCESS, unchanged_tree(n))))(*fs_after(n)), P17),
])

C17("replace_file", {"replaced_file": T.Path, "source_file": T.Path}, [
    Clause("C17.replace.status", lambda o, n, r: (lambda a, b: status(r, [
        (Or_(a == 2, b == 2), FR.REPLACE_NOT_ALLOWED),
        (And_(a == 0, b != 2), FR.REPLACE_FILE_NAME_ONE_TO_BE_REPLACED_DOES_NOT_EXIST),
        (And_(a == 1, b == 0), FR.REPLACE_FILE_NAME_TWO_REPLACE_SOURCE_NOT_EXIST),
        (And_(a == 1, b == 1), FR.REPLACE_SUCCESS)]))(kind0(o.replaced_file), kind0(o.source_file)), P17),
    Clause("C17.replace.effect", lambda o, n, r: (lambda k, c: And_(
        Implies_(And_(r is FR.REPLACE_SUCCESS, o.replaced_file.p != o.source_file.p), And_(
            k[o.replaced_file.p] == 1, c[o.replaced_file.p] == CONTENT0[o.source_file.p], k[o.source_file.p] == 0,
            only_changed(n, o.replaced_file.p, o.source_file.p))),
        Implies_(Or_(r is not FR.REPLACE_SUCCESS, o.replaced_file.p == o.source_file.p), unchanged_tree(n))))(*fs_after(n)), P17),
])

C17("create_directory", {"dir_name": T.Path}, [
    Clause("C17.mkdir.status", lambda o, n, r: status(r, [
        (kind0(o.dir_name) != 0, FR.CREATE_DIR_CAN_NOT_BE_CREATED),
        (And_(kind0(o.dir_name) == 0, Not_(parent_is_dir(o.dir_name))), FR.CREATE_DIR_CAN_NOT_BE_CREATED),
        (And_(kind0(o.dir_name) == 0, parent_is_dir(o.dir_name)), FR.CREATE_DIR_SUCCESS)]), P17),
    Clause("C17.mkdir.effect", lambda o, n, r: (lambda k, c: And_(
        Implies_(r is FR.CREATE_DIR_SUCCESS, And_(k[o.dir_name.p] == 2, only_changed(n, o.dir_name.p))),
        Implies_(r is not FR.CREATE_DIR_SUCCESS, unchanged_tree(n))))(*fs_after(n)), P17),
])


def _has_child0(p):
    q = z3.Const("hfs!child", PathSort)
    return z3.Exists([q], z3.And(path_parent(q) == p.p, KIND0[q] != 0))


C17("remove_directory", {"dir_name": T.Path, "recursive": T.Bool}, [
    Clause("C17.rmdir.status", lambda o, n, r: status(r, [
        (kind0(o.dir_name) == 0, FR.REMOVE_DIR_DOES_NOT_EXIST), (kind0(o.dir_name) == 1, FR.REMOVE_DIR_NOT_ALLOWED),
        (And_(kind0(o.dir_name) == 2, Not_(to_b(o.recursive)), _has_child0(o.dir_name)), FR.REMOVE_DIR_NOT_ALLOWED),
        (And_(kind0(o.dir_name) == 2, Or_(to_b(o.recursive), Not_(_has_child0(o.dir_name)))), FR.REMOVE_DIR_SUCCESS)]), P17),
    Clause("C17.rmdir.effect", lambda o, n, r: (lambda k, c: And_(
        Implies_(And_(r is FR.REMOVE_DIR_SUCCESS, Not_(to_b(o.recursive))), And_(k[o.dir_name.p] == 0, only_changed(n, o.dir_name.p))),
        Implies_(And_(r is FR.REMOVE_DIR_SUCCESS, to_b(o.recursive)), z3.ForAll([Q], And_(
            Implies_(Or_(Q == o.dir_name.p, path_desc(Q, o.dir_name.p)), k[Q] == 0),
            Implies_(Not_(Or_(Q == o.dir_name.p, path_desc(Q, o.dir_name.p))),
                     And_(k[Q] == KIND0[Q], Implies_(KIND0[Q] == 1, c[Q] == CONTENT0[Q])))))),
        Implies_(r is not FR.REMOVE_DIR_SUCCESS, unchanged_tree(n))))(*fs_after(n)), P17),
])


def to_b(x):
    from pyvc.values import to_z3_bool
    return x if isinstance(x, bool) else to_z3_bool(x)


def _write_model(c0, data, off):
    """reference semantics of a write at an offset: zero fill between the old end and the offset; other bytes untouched"""
    return c0, data, off


C17("truncate_file", {"file": T.Path}, [
    Clause("C17.truncate.effect", lambda o, n, r: (lambda k, c: And_(
        k[o.file.p] == 1, z3.Length(c[o.file.p]) == 0, only_changed(n, o.file.p)))(*fs_after(n)), P17),
], raises=[
    RaiseClause("C17.truncate.missing", FileNotFoundError, when=lambda o: kind0(o.file) == 0, iff=True, props=P17, modifies=[],
                post=lambda o, n: unchanged_tree(n)),
    RaiseClause("C17.truncate.directory", IsADirectoryError, when=lambda o: kind0(o.file) == 2, iff=True, props=P17, modifies=[],
                post=lambda o, n: unchanged_tree(n)),
], result=None)


def _off(o):
    from pyvc.values import SOpt
    x = o.offset
    if isinstance(x, SOpt):
        return z3.If(x.isnone, 0, x.val)
    return 0 if x is None else x


I17 = z3.Int("c17!i")

C17("write_data", {"file": T.Path, "data": T.BytesContent, "offset": T.Opt(T.Int)}, [
    Clause("C17.write.read_back_identical", lambda o, n, r: (lambda k, c: And_(
        k[o.file.p] == 1, z3.Extract(c[o.file.p], _off(o), z3.Length(o.data.seq)) == o.data.seq,
        z3.Length(c[o.file.p]) == z3.If(_off(o) + z3.Length(o.data.seq) > z3.Length(CONTENT0[o.file.p]),
                                        _off(o) + z3.Length(o.data.seq), z3.Length(CONTENT0[o.file.p]))))(*fs_after(n)), P17),
    # all other bytes untouched: the part before the offset, zero fill of a gap beyond the old end, the part behind the data
    Clause("C17.write.bytes_before_offset_kept", lambda o, n, r: (lambda k, c, c0: z3.Extract(
        c[o.file.p], 0, z3.If(_off(o) < z3.Length(c0), _off(o), z3.Length(c0))) == z3.Extract(
        c0, 0, z3.If(_off(o) < z3.Length(c0), _off(o), z3.Length(c0))))(*fs_after(n), CONTENT0[o.file.p]), P17),
    Clause("C17.write.gap_reads_as_zero", lambda o, n, r: (lambda k, c, c0: Implies_(_off(o) > z3.Length(c0), z3.Extract(
        c[o.file.p], z3.Length(c0), _off(o) - z3.Length(c0)) == zeros_of(_off(o) - z3.Length(c0))))(*fs_after(n), CONTENT0[o.file.p]), P17),
    Clause("C17.write.bytes_behind_data_kept", lambda o, n, r: (lambda k, c, c0, e: Implies_(e < z3.Length(c0), z3.Extract(
        c[o.file.p], e, z3.Length(c0) - e) == z3.Extract(c0, e, z3.Length(c0) - e)))(
        *fs_after(n), CONTENT0[o.file.p], _off(o) + z3.Length(o.data.seq)), P17),
    Clause("C17.write.other_files_untouched", lambda o, n, r: only_changed(n, o.file.p), P17),
], raises=[
    RaiseClause("C17.write.missing", FileNotFoundError, when=lambda o: kind0(o.file) == 0, iff=True, props=P17, modifies=[],
                post=lambda o, n: unchanged_tree(n)),
    RaiseClause("C17.write.directory", IsADirectoryError, when=lambda o: kind0(o.file) == 2, iff=True, props=P17, modifies=[],
                post=lambda o, n: unchanged_tree(n)),
], result=None, requires=[("offset_non_negative", lambda o: _off(o) >= 0)])

C17("read_data", {"file": T.Path, "offset": T.Opt(T.Int), "read_len": T.Opt(T.Int)}, [
    Clause("C17.read.returns_stored_bytes", lambda o, n, r: (lambda c0, ln: r.seq == z3.Extract(
        c0, z3.If(_off(o) > ln, ln, _off(o)),
        (lambda avail: (z3.If(o.read_len.isnone, avail, z3.If(z3.Or(o.read_len.val < 0, o.read_len.val > avail), avail, o.read_len.val))
                        if hasattr(o.read_len, "isnone") else (avail if o.read_len is None else z3.If(
                            z3.Or(o.read_len < 0, o.read_len > avail), avail, o.read_len))))(ln - z3.If(_off(o) > ln, ln, _off(o)))))(
        CONTENT0[o.file.p], z3.Length(CONTENT0[o.file.p])), P17),
    Clause("C17.read.tree_untouched", lambda o, n, r: unchanged_tree(n), P17),
], raises=[
    RaiseClause("C17.read.missing", FileNotFoundError, when=lambda o: kind0(o.file) == 0, iff=True, props=P17, modifies=[]),
    RaiseClause("C17.read.directory", IsADirectoryError, when=lambda o: kind0(o.file) == 2, iff=True, props=P17, modifies=[]),
], result=T.BytesContent, requires=[("offset_non_negative", lambda o: _off(o) >= 0)])

C17("file_size", {"file": T.Path}, [
    Clause("C17.size", lambda o, n, r: Implies_(kind0(o.file) == 1, r == z3.Length(CONTENT0[o.file.p])), P17),
    Clause("C17.size.tree_untouched", lambda o, n, r: unchanged_tree(n), P17),
], raises=[RaiseClause("C17.size.missing", FileNotFoundError, when=lambda o: kind0(o.file) == 0, iff=True, props=P17, modifies=[])],
    result=T.Int)

C17("file_exists", {"path": T.Path}, [
    Clause("C17.exists", lambda o, n, r: And_(to_b(r) == (kind0(o.path) != 0), unchanged_tree(n)), P17)], result=T.Bool)
C17("is_directory", {"path": T.Path}, [
    Clause("C17.is_directory", lambda o, n, r: And_(to_b(r) == (kind0(o.path) == 2), unchanged_tree(n)), P17)], result=T.Bool)
