"""C16: the user object hands the handlers exactly the filestore it was given."""
from __future__ import annotations

from cfdppy.filestore import NativeFilestore, VirtualFilestore
from cfdppy.user import CfdpUserBase

from pyvc.core import T, isnone, val
from pyvc.spec import Clause, Contract
from pyvc.values import And_, Implies_, Not_, SObj

CONTRACTS = [
    Contract(
        "cfdppy.user.CfdpUserBase.__init__",
        arg_types={"self": T.Obj(CfdpUserBase), "vfs": T.Opt(T.Obj(VirtualFilestore))}, props=("C16",), result=None,
        requires=[], modifies=["self.vfs"],
        ensures=[
            # whatever the supplied filestore object looks like (it may be empty, it may define __len__ or __bool__), it is the one the
            # handlers will use; only when none is supplied the native filestore is the default
            Clause("C16.supplied_filestore_is_used", lambda o, n, r: Implies_(
                Not_(isnone(o.vfs)), isinstance(n.self.vfs, SObj) and n.self.vfs.oid == val(o.vfs).oid), ("C16",)),
            Clause("C16.native_filestore_only_by_default", lambda o, n, r: Implies_(
                isnone(o.vfs), isinstance(n.self.vfs, SObj) and n.self.vfs.cls is NativeFilestore), ("C16",)),
        ],
        effects=set(), modular=False),
]
