def install(world):
    import importlib
    from .common import remote_cfg_inv
    # ASSUMPTION (environment): every entry of the remote-entity table is a valid configuration
    world.remote_cfg_invariant = lambda rc: remote_cfg_inv(rc)
    for name in MODULES:
        mod = importlib.import_module(f"contracts.{name}")
        for c in mod.CONTRACTS:
            if c.effects is None and ".LostSegmentTracker." in c.fq:
                c.effects = set()  # a pure data structure
            if c.effects is None and c.fq.startswith("cfdppy.handler."):
                # C16: whatever a handler function does to the outside world goes through these channels only
                c.effects = {"vfs", "user", "timer", "fault_cb"} | ({"seqnum"} if ".source." in c.fq else set())
            if c.key in world.contracts:
                raise RuntimeError(f"duplicate contract {c.key}")
            world.contracts[c.key] = c
            if c.call_default and not c.no_call_summary:
                world.call_contracts[c.fq] = c
            if c.modular and c.call_default:
                world.modular.add(c.fq)


MODULES = ["tracker", "dest", "source", "routing", "mib", "filestore", "user"]
