def install(world):
    from . import tracker
    for mod in (tracker,):
        for c in mod.CONTRACTS:
            world.contracts[c.fq] = c
            if c.modular:
                world.modular.add(c.fq)
