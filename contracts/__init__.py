def install(world):
    from . import tracker, dest
    for mod in (tracker, dest):
        for c in mod.CONTRACTS:
            world.contracts[c.fq] = c
            if c.modular:
                world.modular.add(c.fq)
