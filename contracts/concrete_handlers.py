"""Concrete oracles for the handler-level properties: a small-scope enumeration of scenarios run on the REAL handlers of the
current tree through contracts/sim.py.  Used only to turn a failed obligation into a replayable failing input; a clean
search proves nothing and is never counted.  Every scenario family below passes on the unchanged tree (scenarios that would
hit the open known finding F5c - ABANDON configured for a receiver-side fault - are not generated)."""
from __future__ import annotations

import itertools
import json
import os
import time

from contracts.sim import DEFAULT_CFG, Run

# which monitor verdicts count as a failing input for a failed obligation of property <key>
ACCEPT = {
    "C01": {"C01", "C05", "C07"}, "C02": {"C02", "C01", "C05", "C07", "C15", "C10"}, "C03": {"C02", "C06", "C08", "C04", "C01", "C03"},
    "C04": {"C04"}, "C05": {"C05"}, "C06": {"C06"}, "C07": {"C07"}, "C08": {"C08"}, "C10": {"C10"}, "C11": {"C11"},
    "C12": {"C12"}, "C13": {"C13"}, "C14": {"C14"}, "C15": {"C15"}, "C16": {"C16"}, "C19": {"C19"}, "C09": {"C07", "C12", "C01"},
}


def scripts_tier1():
    yield []
    for k in range(0, 6):
        yield [["drop", "sd", k]]
    for k in range(0, 4):
        yield [["drop", "ds", k]]
    for k in range(0, 5):
        yield [["silent", "ds", k]]
    for k in range(1, 6):
        yield [["silent", "sd", k]]
    for r in range(0, 7):
        yield [["cancel_src", r]]
    for r in range(1, 7):
        yield [["cancel_dst", r]]
    for k in range(1, 5):
        yield [["dup", "sd", k]]
    for k in range(1, 5):
        for d in (1, 2, 4):
            yield [["delay", "sd", k, d]]


def scripts_tier2():
    for r in range(0, 6):
        yield [["cancel_src", r], ["silent", "ds", 0]]
        yield [["cancel_src", r], ["silent", "ds", 1]]
    for r in range(1, 6):
        yield [["cancel_dst", r], ["silent", "sd", r + 1]]
    for a, b in itertools.combinations(range(1, 6), 2):
        yield [["drop", "sd", a], ["drop", "sd", b]]
    for k in range(1, 5):
        yield [["drop", "sd", k], ["silent", "sd", 6]]
        yield [["drop", "sd", k], ["drop", "ds", 0]]
        yield [["drop", "sd", k], ["drop", "ds", 1]]
        yield [["drop", "sd", 0], ["drop", "sd", k]]
    for k in range(1, 4):
        for d in (2, 3, 5, 7):
            yield [["delay", "sd", k, d], ["delay", "sd", k + 1, d]]
            yield [["delay", "sd", k, d], ["silent", "ds", 0]]
    for k in range(4, 14):
        yield [["drop", "sd", 0], ["silent", "sd", k]]
        yield [["drop", "sd", 0], ["drop", "sd", 2], ["silent", "sd", k]]
    for k in range(3, 9):
        yield [["cancel_src", 2], ["silent", "ds", 0], ["silent", "sd", k]]
    for r in (1, 2, 3, 4, 5):
        yield [["put_again", r]]
        yield [["stray_dst", r]]
        yield [["stray_src", r]]
        yield [["stray_dst", r], ["drop", "sd", 2]]
        yield [["stray_dst", r], ["delay", "sd", 2, 4]]
        yield [["stray_dst", r], ["cancel_src", 2]]
        yield [["keepalive_src", r]]
        yield [["finished_src", r]]


def cfgs_tier1():
    yield {}
    yield {"mode": "unack", "closure": False}
    yield {"mode": "unack", "closure": True}
    yield {"imm": False}
    yield {"size": 0}
    yield {"size": None}
    yield {"size": None, "closure": False}
    yield {"size": None, "mode": "unack", "closure": False}
    yield {"size": None, "mode": "unack", "closure": True}
    yield {"size": 0, "closure": False}
    yield {"size": 5}
    yield {"limit": 1}
    yield {"limit": 3, "imm": False}
    yield {"crc": "NULL_CHECKSUM"}
    yield {"crc": "MODULAR", "size": 21}
    yield {"crc": "CRC_32C", "mode": "unack", "closure": True, "limit": 3}
    yield {"disp": True}
    yield {"dest_is_dir": True}
    yield {"dest_exists": True}
    yield {"dest_is_dir": True, "dest_exists": True, "transactions": 2}
    yield {"crc_flag": True}
    yield {"put_mode": "unack", "put_closure": True}
    yield {"mode": "unack", "closure": False, "put_mode": "ack", "put_closure": False}
    yield {"mode": "unack", "closure": False, "put_closure": True}
    yield {"mode": "unack", "closure": True, "put_closure": False}
    yield {"transactions": 2}
    yield {"seg": 1024, "maxpkt": 64, "size": 300}


def cfgs_tier2():
    yield {"ind": {"eof_sent_indication_required": False, "eof_recv_indication_required": False,
                   "file_segment_recvd_indication_required": False, "transaction_finished_indication_required": False}}
    yield {"ind": {"transaction_finished_indication_required": False}, "mode": "unack", "closure": True}
    yield {"size": 96, "maxpkt": 40, "imm": False, "many_gaps": True}
    yield {"size": 96, "maxpkt": 40, "imm": False, "many_gaps": True, "limit": 3, "silent_after_gaps": True}
    yield {"size": 240, "maxpkt": 128, "imm": False, "many_gaps": True, "limit": 2, "silent_after_gaps": True}
    yield {"crc": "NULL_CHECKSUM", "disp": True}
    yield {"crc": "NULL_CHECKSUM", "imm": False}
    yield {"transactions": 2, "crc_flag_first_only": True}
    yield {"transactions": 2, "imm": False, "limit": 1}
    yield {"transactions": 3, "mode": "unack", "closure": True}
    yield {"src_faults": {"CANCEL_REQUEST_RECEIVED": "IGNORE_ERROR"}}
    yield {"src_faults": {"POSITIVE_ACK_LIMIT_REACHED": "IGNORE_ERROR"}}
    yield {"src_faults": {"POSITIVE_ACK_LIMIT_REACHED": "ABANDON_TRANSACTION"}}
    yield {"src_faults": {"CHECK_LIMIT_REACHED": "ABANDON_TRANSACTION"}, "mode": "unack", "closure": True}
    yield {"dst_faults": {"NAK_LIMIT_REACHED": "IGNORE_ERROR"}, "imm": False}
    yield {"dst_faults": {"CHECK_LIMIT_REACHED": "IGNORE_ERROR"}, "mode": "unack", "closure": True}
    yield {"limit": 4, "imm": False, "size": 40}
    yield {"limit": 5}
    yield {"size": 8}
    yield {"size": 64, "seg": 16}
    yield {"msgs": "orig_then_put_response"}
    yield {"msgs": "put_response_then_orig"}
    yield {"msgs": "orig_only"}
    yield {"fsreq": True}
    yield {"fsreq": True, "imm": False}


def all_cases():
    seen = set()

    def emit(cfg, script):
        c = dict(cfg)
        sc = [list(e) for e in script]
        if c.pop("many_gaps", False):
            n_seg = c["size"] // c.get("seg", DEFAULT_CFG["seg"])
            sc = [["drop", "sd", k] for k in range(2, n_seg + 1, 2)] + sc
            if c.pop("silent_after_gaps", False):
                sc.append(["silent", "sd", n_seg + 2])
        c.pop("silent_after_gaps", None)
        key = json.dumps([c, sc], sort_keys=True)
        if key in seen:
            return None
        seen.add(key)
        return {"cfg": c, "script": sc}
    t1c, t2c = list(cfgs_tier1()), list(cfgs_tier2())
    t1s, t2s = list(scripts_tier1()), list(scripts_tier2())
    for cfg in t1c:
        for s in t1s[:1]:
            x = emit(cfg, s)
            if x:
                yield x
    for cfg in t2c:
        x = emit(cfg, [])
        if x:
            yield x
    for s in t1s:
        for cfg in t1c:
            x = emit(cfg, s)
            if x:
                yield x
    for s in t2s:
        for cfg in t1c[:8] + t2c:
            x = emit(cfg, s)
            if x:
                yield x
    for s in t1s:
        for cfg in t2c:
            x = emit(cfg, s)
            if x:
                yield x


NONINTERFERING = {"put_again": "C19", "stray_dst": "C10", "stray_src": "C10"}


def execute(case, workdir=None):
    wd = workdir or os.environ.get("PYVC_WORK")
    r = Run(case.get("cfg", {}), case.get("script", []), workdir=wd)
    viol = r.execute()
    ev = [e for e in case.get("script", []) if e[0] in NONINTERFERING]
    if ev:
        # a refused request / rejected PDU must leave the run exactly as it would have been without it
        from contracts.sim_checks import first_difference, normalized
        base = Run(case.get("cfg", {}), [e for e in case.get("script", []) if e[0] not in NONINTERFERING], workdir=wd)
        base.execute()
        d = first_difference(normalized(base, base.log, base.ind, base.faults), normalized(r, r.log, r.ind, r.faults))
        if d:
            viol.append([NONINTERFERING[ev[0][0]], f"the run with the refused {ev[0][0]} event differs from the run without it: {d}"])
    return r, viol


class HandlerOracle:
    scope = ("scenario enumeration on the real SourceHandler/DestHandler pair over a scripted link with a virtual clock: "
             "3 mode/closure settings x file sizes {none,0,5,8,20,21,40,64,96,240,300} x 4 checksum types x limits 1..5 x NAK modes x "
             "single and double loss / duplication / delay / silence / cancel events at PDU indices and rounds 0..6, stray PDUs, "
             "second put request, 1..3 consecutive transactions; monitors of contracts/sim_checks.py")

    def __init__(self, fq):
        self.fq = fq

    def search(self, model, budget_s, obligation=None, pid=None):
        accept = ACCEPT.get(pid or "", {pid})
        t0 = time.time()
        n = 0
        for case in all_cases():
            n += 1
            try:
                _, viol = execute(case)
            except Exception:  # noqa: BLE001   a harness failure is not a finding
                continue
            hit = [v for v in viol if v[0] in accept]
            if hit:
                case = dict(case)
                case["accept"] = sorted(accept)
                return case
            if time.time() - t0 > budget_s:
                break
        self.searched = n
        return None

    def run(self, case):
        accept = set(case.get("accept") or [])
        try:
            _, viol = execute(case)
        except Exception as e:  # noqa: BLE001
            return True, f"harness error {type(e).__name__}: {e}"
        hit = [v for v in viol if not accept or v[0] in accept]
        if hit:
            return False, "; ".join(f"[{p}] {t}" for p, t in hit[:3])
        return True, "every monitored property statement held on this scenario"


def _handler_functions():
    import inspect
    import cfdppy.handler.dest as D
    import cfdppy.handler.source as S
    out = []
    for mod, cls in ((D, D.DestHandler), (S, S.SourceHandler)):
        for name, fn in vars(cls).items():
            f = fn.fget if isinstance(fn, property) else fn
            if inspect.isfunction(f):
                out.append(f"{mod.__name__}.{cls.__name__}.{name}")
                pre = f"_{cls.__name__}__"
                if name.startswith(pre):
                    out.append(f"{mod.__name__}.{cls.__name__}.__{name[len(pre):]}")
    return out


ORACLES = {fq: HandlerOracle(fq) for fq in _handler_functions()}
