"""Concrete oracles for the pure / filestore functions (C09, C17 data operations, C20): small-scope enumeration on the real
functions of the current tree against reference computations written from the property statements.  Used only to turn a
failed obligation into a replayable failing input; a clean search proves nothing and is never counted."""
from __future__ import annotations

import os
import shutil
import tempfile
import zlib
from pathlib import Path


def _content(n, salt=0):
    return bytes(((i * 37 + 11 + salt * 5) ^ (i >> 2)) & 0xFF for i in range(n))


def _ref_checksum(kind, data):
    if kind == "NULL_CHECKSUM":
        return bytes(4)
    if kind == "CRC_32":
        return zlib.crc32(data).to_bytes(4, "big")
    if kind == "CRC_32C":
        from stubs.conformance import _crc32c_ref
        return _crc32c_ref(data).to_bytes(4, "big")
    s = 0
    for i in range(0, len(data), 4):
        s += int.from_bytes(data[i:i + 4].ljust(4, b"\0"), "big")
    return (s % 2 ** 32).to_bytes(4, "big")


class _Scratch:
    def __enter__(self):
        self.d = Path(tempfile.mkdtemp(prefix="pure", dir=os.environ.get("PYVC_WORK")))
        return self.d

    def __exit__(self, *a):
        shutil.rmtree(self.d, ignore_errors=True)


class _Enum:
    scope = "?"

    def cases(self):
        return []

    def search(self, model, budget_s, obligation=None, pid=None):
        import time
        t0 = time.time()
        for c in self.cases():
            ok, _ = self.run(c)
            if not ok:
                return c
            if time.time() - t0 > budget_s:
                break
        return None


class ChecksumOracle(_Enum):
    scope = "file lengths 0..9 and 4096+5, every prefix length 0..len, chunk lengths 1..5 and 4096, the four checksum types"

    def __init__(self, target):
        self.target = target

    def cases(self):
        kinds = ["MODULAR"] if self.target == "modular" else ["NULL_CHECKSUM", "CRC_32", "CRC_32C", "MODULAR"]
        for n in list(range(0, 10)) + [4101]:
            sizes = range(0, n + 1) if n < 100 else (0, 1, 4095, 4096, 4097, n)
            for size in sizes:
                for kind in kinds:
                    for seg in ((1, 2, 3, 5, 4096) if self.target != "modular" and kind in ("CRC_32", "CRC_32C") else (4096,)):
                        yield {"target": self.target, "len": n, "size": size, "kind": kind, "seg": seg}
            if self.target == "modular":
                yield {"target": self.target, "len": n, "size": None, "kind": "MODULAR", "seg": 4096}

    def run(self, c):
        from spacepackets.cfdp import ChecksumType
        data = _content(c["len"])
        with _Scratch() as d:
            f = d / "f.bin"
            f.write_bytes(data)
            want_prefix = data if c["size"] is None else data[:c["size"]]
            want = _ref_checksum(c["kind"], want_prefix)
            try:
                if c["target"] == "modular":
                    from cfdppy.crc import calc_modular_checksum
                    got = calc_modular_checksum(f) if c["size"] is None else calc_modular_checksum(f, c["size"])
                elif c["target"] == "verify":
                    from cfdppy.filestore import NativeFilestore
                    fs = NativeFilestore()
                    ok1 = fs.verify_checksum(want, ChecksumType[c["kind"]], f, c["size"], c["seg"])
                    wrong = bytes([want[0] ^ 1]) + want[1:]
                    ok2 = fs.verify_checksum(wrong, ChecksumType[c["kind"]], f, c["size"], c["seg"])
                    good = bool(ok1) and (not ok2 or c["kind"] == "NULL_CHECKSUM" and False)
                    if c["kind"] == "NULL_CHECKSUM":
                        good = bool(ok1) and not ok2
                    return good, f"verify_checksum(correct)={ok1}, verify_checksum(one bit off)={ok2} for {c}"
                else:
                    from cfdppy.filestore import NativeFilestore
                    got = NativeFilestore().calculate_checksum(ChecksumType[c["kind"]], f, c["size"], c["seg"])
            except Exception as e:  # noqa: BLE001
                return False, f"raised {type(e).__name__}: {e} for {c}"
        return bytes(got) == want, f"checksum {bytes(got).hex()} != reference {want.hex()} for {c}" if bytes(got) != want else "ok"


class FileDataOracle(_Enum):
    scope = "write/read/truncate on files of length 0..6, offsets 0..8, payloads of length 0..4"

    def __init__(self, op):
        self.op = op

    def cases(self):
        for n in range(0, 7):
            if self.op == "truncate_file":
                yield {"op": self.op, "len": n}
                continue
            for off in range(0, 9):
                for ln in range(0, 5):
                    yield {"op": self.op, "len": n, "offset": off, "n": ln}

    def run(self, c):
        from cfdppy.filestore import NativeFilestore
        fs = NativeFilestore()
        data = _content(c["len"])
        with _Scratch() as d:
            f, other = d / "f.bin", d / "other.bin"
            f.write_bytes(data)
            other.write_bytes(b"OTHER")
            try:
                if c["op"] == "write_data":
                    payload = _content(c["n"], 3)
                    fs.write_data(f, payload, c["offset"])
                    have = f.read_bytes()
                    want = bytearray(data)
                    end = c["offset"] + len(payload)
                    if len(payload) > 0:
                        if len(want) < end:
                            want.extend(b"\0" * (end - len(want)))
                        want[c["offset"]:end] = payload
                    ok = bytes(want) == have and other.read_bytes() == b"OTHER"
                    back = fs.read_data(f, c["offset"], len(payload)) if len(payload) else b""
                    ok = ok and bytes(back) == payload
                    return ok, f"write_data {c}: file {have.hex()} expected {bytes(want).hex()}, read back {bytes(back).hex()}"
                if c["op"] == "read_data":
                    got = fs.read_data(f, c["offset"], c["n"])
                    want = data[c["offset"]:c["offset"] + c["n"]]
                    return bytes(got) == want and f.read_bytes() == data, f"read_data {c}: {bytes(got).hex()} expected {want.hex()}"
                if c["op"] == "truncate_file":
                    fs.truncate_file(f)
                    return f.read_bytes() == b"" and other.read_bytes() == b"OTHER", f"truncate_file {c}: {f.read_bytes().hex()}"
            except Exception as e:  # noqa: BLE001
                return False, f"{c} raised {type(e).__name__}: {e}"
        return True, "?"


class RoutingOracle(_Enum):
    scope = "one PDU of each of the eight kinds x both transmission modes x both ACK kinds"

    def cases(self):
        for mode in ("ACKNOWLEDGED", "UNACKNOWLEDGED"):
            for kind in ("FD", "MD", "EOF", "PROMPT", "FIN", "NAK", "KEEPALIVE", "ACK_EOF", "ACK_FIN"):
                yield {"kind": kind, "mode": mode}

    def run(self, c):
        from spacepackets.cfdp import ChecksumType, ConditionCode, PduConfig, TransmissionMode
        from spacepackets.cfdp.pdu import (AckPdu, DirectiveType, EofPdu, FileDataPdu, FinishedPdu, KeepAlivePdu, MetadataParams,
                                            MetadataPdu, NakPdu, TransactionStatus)
        from spacepackets.cfdp.pdu.file_data import FileDataParams
        from spacepackets.cfdp.pdu.finished import DeliveryCode, FileStatus, FinishedParams
        from spacepackets.cfdp.pdu.prompt import PromptPdu, ResponseRequired
        from spacepackets.util import ByteFieldU16
        from cfdppy.handler.common import PacketDestination, get_packet_destination
        conf = PduConfig(ByteFieldU16(1), ByteFieldU16(2), ByteFieldU16(3), TransmissionMode[c["mode"]])
        fp = FinishedParams(ConditionCode.NO_ERROR, DeliveryCode.DATA_COMPLETE, FileStatus.FILE_RETAINED)
        mk = {
            "FD": lambda: FileDataPdu(conf, FileDataParams(b"ab", 0)),
            "MD": lambda: MetadataPdu(conf, MetadataParams(True, ChecksumType.CRC_32, 2, "s", "d")),
            "EOF": lambda: EofPdu(conf, bytes(4), 2),
            "PROMPT": lambda: PromptPdu(conf, ResponseRequired.KEEP_ALIVE),
            "FIN": lambda: FinishedPdu(conf, fp),
            "NAK": lambda: NakPdu(conf, 0, 2, [(0, 2)]),
            "KEEPALIVE": lambda: KeepAlivePdu(conf, 0),
            "ACK_EOF": lambda: AckPdu(conf, DirectiveType.EOF_PDU, ConditionCode.NO_ERROR, TransactionStatus.ACTIVE),
            "ACK_FIN": lambda: AckPdu(conf, DirectiveType.FINISHED_PDU, ConditionCode.NO_ERROR, TransactionStatus.ACTIVE),
        }
        want = "DEST_HANDLER" if c["kind"] in ("FD", "MD", "EOF", "PROMPT", "ACK_FIN") else "SOURCE_HANDLER"
        try:
            got = get_packet_destination(mk[c["kind"]]())
        except Exception as e:  # noqa: BLE001
            return False, f"{c}: raised {type(e).__name__}: {e}"
        return got == PacketDestination[want], f"{c}: routed to {got.name}, the table says {want}"


ORACLES = {
    "cfdppy.crc.calc_modular_checksum": ChecksumOracle("modular"),
    "cfdppy.filestore.NativeFilestore.calculate_checksum": ChecksumOracle("calculate"),
    "cfdppy.filestore.NativeFilestore._generate_crc_calculator": ChecksumOracle("calculate"),
    "cfdppy.filestore.NativeFilestore.checksum_type_to_crcmod_str": ChecksumOracle("calculate"),
    "cfdppy.filestore.NativeFilestore.read_from_opened_file": ChecksumOracle("calculate"),
    "cfdppy.filestore.VirtualFilestore.verify_checksum": ChecksumOracle("verify"),
    "cfdppy.filestore.NativeFilestore.write_data": FileDataOracle("write_data"),
    "cfdppy.filestore.NativeFilestore.read_data": FileDataOracle("read_data"),
    "cfdppy.filestore.NativeFilestore.truncate_file": FileDataOracle("truncate_file"),
    "cfdppy.handler.common.get_packet_destination": RoutingOracle(),
}
