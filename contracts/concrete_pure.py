"""Concrete oracles for the pure / filestore functions (C09, C17 data operations, C20): small-scope enumeration on the real
functions of the current tree against reference computations written from the property statements.  Used only to turn a
failed obligation into a replayable failing input; a clean search proves nothing and is never counted."""
from __future__ import annotations

import os
import shutil
import tempfile
import zlib
from pathlib import Path


def _content(n, salt=0):
    return bytes(((i * 37 + 11 + salt * 5) ^ (i >> 2)) & 0xFF for i in range(n))


def _ref_checksum(kind, data):
    if kind == "NULL_CHECKSUM":
        return bytes(4)
    if kind == "CRC_32":
        return zlib.crc32(data).to_bytes(4, "big")
    if kind == "CRC_32C":
        from stubs.conformance import _crc32c_ref
        return _crc32c_ref(data).to_bytes(4, "big")
    s = 0
    for i in range(0, len(data), 4):
        s += int.from_bytes(data[i:i + 4].ljust(4, b"\0"), "big")
    return (s % 2 ** 32).to_bytes(4, "big")


class _Scratch:
    def __enter__(self):
        import logging
        logging.disable(logging.CRITICAL)   # (the library logs every refusal)
        self.d = Path(tempfile.mkdtemp(prefix="pure", dir=os.environ.get("PYVC_WORK")))
        return self.d

    def __exit__(self, *a):
        import logging
        logging.disable(logging.NOTSET)
        shutil.rmtree(self.d, ignore_errors=True)


class _Enum:
    scope = "?"

    def cases(self):
        return []

    def search(self, model, budget_s, obligation=None, pid=None):
        import time
        t0 = time.time()
        for c in self.cases():
            ok, _ = self.run(c)
            if not ok:
                return c
            if time.time() - t0 > budget_s:
                break
        return None


class ChecksumOracle(_Enum):
    scope = "file lengths 0..9 and 4096+5, every prefix length 0..len, chunk lengths 1..5 and 4096, the four checksum types"

    def __init__(self, target):
        self.target = target

    def cases(self):
        kinds = ["MODULAR"] if self.target == "modular" else ["NULL_CHECKSUM", "CRC_32", "CRC_32C", "MODULAR"]
        for n in list(range(0, 10)) + [4101]:
            sizes = range(0, n + 1) if n < 100 else (0, 1, 4095, 4096, 4097, n)
            for size in sizes:
                for kind in kinds:
                    for seg in ((1, 2, 3, 5, 4096) if self.target != "modular" and kind in ("CRC_32", "CRC_32C") else (4096,)):
                        yield {"target": self.target, "len": n, "size": size, "kind": kind, "seg": seg}
            if self.target == "modular":
                yield {"target": self.target, "len": n, "size": None, "kind": "MODULAR", "seg": 4096}

    def run(self, c):
        from spacepackets.cfdp import ChecksumType
        data = _content(c["len"])
        with _Scratch() as d:
            f = d / "f.bin"
            f.write_bytes(data)
            want_prefix = data if c["size"] is None else data[:c["size"]]
            want = _ref_checksum(c["kind"], want_prefix)
            try:
                if c["target"] == "modular":
                    from cfdppy.crc import calc_modular_checksum
                    got = calc_modular_checksum(f) if c["size"] is None else calc_modular_checksum(f, c["size"])
                elif c["target"] == "verify":
                    from cfdppy.filestore import NativeFilestore
                    fs = NativeFilestore()
                    ok1 = fs.verify_checksum(want, ChecksumType[c["kind"]], f, c["size"], c["seg"])
                    wrong = bytes([want[0] ^ 1]) + want[1:]
                    ok2 = fs.verify_checksum(wrong, ChecksumType[c["kind"]], f, c["size"], c["seg"])
                    good = bool(ok1) and (not ok2 or c["kind"] == "NULL_CHECKSUM" and False)
                    if c["kind"] == "NULL_CHECKSUM":
                        good = bool(ok1) and not ok2
                    return good, f"verify_checksum(correct)={ok1}, verify_checksum(one bit off)={ok2} for {c}"
                else:
                    from cfdppy.filestore import NativeFilestore
                    got = NativeFilestore().calculate_checksum(ChecksumType[c["kind"]], f, c["size"], c["seg"])
            except Exception as e:  # noqa: BLE001
                return False, f"raised {type(e).__name__}: {e} for {c}"
        return bytes(got) == want, f"checksum {bytes(got).hex()} != reference {want.hex()} for {c}" if bytes(got) != want else "ok"


class FileDataOracle(_Enum):
    scope = "write/read/truncate on files of length 0..6, offsets 0..8, payloads of length 0..4"

    def __init__(self, op):
        self.op = op

    def cases(self):
        for n in range(0, 7):
            if self.op == "truncate_file":
                yield {"op": self.op, "len": n}
                continue
            for off in range(0, 9):
                for ln in range(0, 5):
                    yield {"op": self.op, "len": n, "offset": off, "n": ln}

    def run(self, c):
        from cfdppy.filestore import NativeFilestore
        fs = NativeFilestore()
        data = _content(c["len"])
        with _Scratch() as d:
            f, other = d / "f.bin", d / "other.bin"
            f.write_bytes(data)
            other.write_bytes(b"OTHER")
            try:
                if c["op"] == "write_data":
                    payload = _content(c["n"], 3)
                    fs.write_data(f, payload, c["offset"])
                    have = f.read_bytes()
                    want = bytearray(data)
                    end = c["offset"] + len(payload)
                    if len(payload) > 0:
                        if len(want) < end:
                            want.extend(b"\0" * (end - len(want)))
                        want[c["offset"]:end] = payload
                    ok = bytes(want) == have and other.read_bytes() == b"OTHER"
                    back = fs.read_data(f, c["offset"], len(payload)) if len(payload) else b""
                    ok = ok and bytes(back) == payload
                    return ok, f"write_data {c}: file {have.hex()} expected {bytes(want).hex()}, read back {bytes(back).hex()}"
                if c["op"] == "read_data":
                    got = fs.read_data(f, c["offset"], c["n"])
                    want = data[c["offset"]:c["offset"] + c["n"]]
                    return bytes(got) == want and f.read_bytes() == data, f"read_data {c}: {bytes(got).hex()} expected {want.hex()}"
                if c["op"] == "truncate_file":
                    fs.truncate_file(f)
                    return f.read_bytes() == b"" and other.read_bytes() == b"OTHER", f"truncate_file {c}: {f.read_bytes().hex()}"
            except Exception as e:  # noqa: BLE001
                return False, f"{c} raised {type(e).__name__}: {e}"
        return True, "?"


class RoutingOracle(_Enum):
    scope = "one PDU of each of the eight kinds x both transmission modes x both ACK kinds"

    def cases(self):
        for mode in ("ACKNOWLEDGED", "UNACKNOWLEDGED"):
            for kind in ("FD", "MD", "EOF", "PROMPT", "FIN", "NAK", "KEEPALIVE", "ACK_EOF", "ACK_FIN"):
                yield {"kind": kind, "mode": mode}

    def run(self, c):
        from spacepackets.cfdp import ChecksumType, ConditionCode, PduConfig, TransmissionMode
        from spacepackets.cfdp.pdu import (AckPdu, DirectiveType, EofPdu, FileDataPdu, FinishedPdu, KeepAlivePdu, MetadataParams,
                                            MetadataPdu, NakPdu, TransactionStatus)
        from spacepackets.cfdp.pdu.file_data import FileDataParams
        from spacepackets.cfdp.pdu.finished import DeliveryCode, FileStatus, FinishedParams
        from spacepackets.cfdp.pdu.prompt import PromptPdu, ResponseRequired
        from spacepackets.util import ByteFieldU16
        from cfdppy.handler.common import PacketDestination, get_packet_destination
        conf = PduConfig(ByteFieldU16(1), ByteFieldU16(2), ByteFieldU16(3), TransmissionMode[c["mode"]])
        fp = FinishedParams(ConditionCode.NO_ERROR, DeliveryCode.DATA_COMPLETE, FileStatus.FILE_RETAINED)
        mk = {
            "FD": lambda: FileDataPdu(conf, FileDataParams(b"ab", 0)),
            "MD": lambda: MetadataPdu(conf, MetadataParams(True, ChecksumType.CRC_32, 2, "s", "d")),
            "EOF": lambda: EofPdu(conf, bytes(4), 2),
            "PROMPT": lambda: PromptPdu(conf, ResponseRequired.KEEP_ALIVE),
            "FIN": lambda: FinishedPdu(conf, fp),
            "NAK": lambda: NakPdu(conf, 0, 2, [(0, 2)]),
            "KEEPALIVE": lambda: KeepAlivePdu(conf, 0),
            "ACK_EOF": lambda: AckPdu(conf, DirectiveType.EOF_PDU, ConditionCode.NO_ERROR, TransactionStatus.ACTIVE),
            "ACK_FIN": lambda: AckPdu(conf, DirectiveType.FINISHED_PDU, ConditionCode.NO_ERROR, TransactionStatus.ACTIVE),
        }
        want = "DEST_HANDLER" if c["kind"] in ("FD", "MD", "EOF", "PROMPT", "ACK_FIN") else "SOURCE_HANDLER"
        try:
            got = get_packet_destination(mk[c["kind"]]())
        except Exception as e:  # noqa: BLE001
            return False, f"{c}: raised {type(e).__name__}: {e}"
        return got == PacketDestination[want], f"{c}: routed to {got.name}, the table says {want}"


ORACLES = {
    "cfdppy.crc.calc_modular_checksum": ChecksumOracle("modular"),
    "cfdppy.filestore.NativeFilestore.calculate_checksum": ChecksumOracle("calculate"),
    "cfdppy.filestore.NativeFilestore._generate_crc_calculator": ChecksumOracle("calculate"),
    "cfdppy.filestore.NativeFilestore.checksum_type_to_crcmod_str": ChecksumOracle("calculate"),
    "cfdppy.filestore.NativeFilestore.read_from_opened_file": ChecksumOracle("calculate"),
    "cfdppy.filestore.VirtualFilestore.verify_checksum": ChecksumOracle("verify"),
    "cfdppy.filestore.NativeFilestore.write_data": FileDataOracle("write_data"),
    "cfdppy.filestore.NativeFilestore.read_data": FileDataOracle("read_data"),
    "cfdppy.filestore.NativeFilestore.truncate_file": FileDataOracle("truncate_file"),
    "cfdppy.handler.common.get_packet_destination": RoutingOracle(),
}


# ---------------------------------------------------------------- directory tree operations of the native filestore (C17)
TREES = {
    "flat": {"f": b"F", "g": b"GG", "d": None},
    "nested": {"f": b"F", "d": None, "d/x": b"X", "e": None, "e/sub": None, "e/sub/y": b"Y"},
    "dirs_only": {"d": None, "d/sub": None, "d/sub/z": b"Z", "h": None},
}
NAMES = ["f", "g", "d", "d/x", "d/sub", "e", "e/sub", "h", "missing", "missing/sub", "f/below"]


def _kind(tree, p):
    if p not in tree:
        return "none"
    return "dir" if tree[p] is None else "file"


def _parent_ok(tree, p):
    par = p.rsplit("/", 1)[0] if "/" in p else ""
    return par == "" or _kind(tree, par) == "dir"


def _children(tree, p):
    return [k for k in tree if k.startswith(p + "/")]


def _model(op, tree, a, b=None, recursive=False):
    """reference semantics of the documented status codes; returns (status name, new tree)"""
    t = dict(tree)
    ka = _kind(t, a)
    if op == "create_file":
        if ka != "none" or not _parent_ok(t, a):
            return "CREATE_NOT_ALLOWED", t
        t[a] = b""
        return "CREATE_SUCCESS", t
    if op == "delete_file":
        if ka == "none":
            return "DELETE_FILE_DOES_NOT_EXIST", t
        if ka == "dir":
            return "DELETE_NOT_ALLOWED", t
        del t[a]
        return "DELETE_SUCCESS", t
    if op == "create_directory":
        if ka != "none" or not _parent_ok(t, a):
            return "CREATE_DIR_CAN_NOT_BE_CREATED", t
        t[a] = None
        return "CREATE_DIR_SUCCESS", t
    if op == "remove_directory":
        if ka == "none":
            return "REMOVE_DIR_DOES_NOT_EXIST", t
        if ka == "file":
            return "REMOVE_DIR_NOT_ALLOWED", t
        kids = _children(t, a)
        if kids and not recursive:
            return "REMOVE_DIR_NOT_ALLOWED", t
        for k in kids:
            del t[k]
        del t[a]
        return "REMOVE_DIR_SUCCESS", t
    kb = _kind(t, b)
    if op == "rename_file":
        if ka == "dir" or kb == "dir":
            return "RENAME_NOT_PERFORMED", t
        if ka == "none":
            return "RENAME_OLD_FILE_DOES_NOT_EXIST", t
        if kb != "none":
            return "RENAME_NEW_FILE_DOES_EXIST", t
        if not _parent_ok(t, b):
            return "RENAME_NOT_PERFORMED", t
        t[b] = t.pop(a)
        return "RENAME_SUCCESS", t
    if op == "replace_file":   # a = replaced, b = source
        if ka == "dir" or kb == "dir":
            return "REPLACE_NOT_ALLOWED", t
        if ka == "none":
            return "REPLACE_FILE_NAME_ONE_TO_BE_REPLACED_DOES_NOT_EXIST", t
        if kb == "none":
            return "REPLACE_FILE_NAME_TWO_REPLACE_SOURCE_NOT_EXIST", t
        t[a] = t.pop(b)
        return "REPLACE_SUCCESS", t
    raise ValueError(op)


def _build(root, tree):
    for p in sorted(tree, key=lambda x: x.count("/")):
        q = root / p
        if tree[p] is None:
            q.mkdir()
        else:
            q.write_bytes(tree[p])


def _snapshot(root):
    out = {}
    for q in sorted(root.rglob("*")):
        rel = str(q.relative_to(root))
        out[rel] = None if q.is_dir() else q.read_bytes()
    return out


class TreeOracle(_Enum):
    scope = "three small directory trees x every path argument of a fixed name set (existing file/dir, nested, missing parent) x both flags"

    def __init__(self, op):
        self.op = op

    def cases(self):
        for tn in TREES:
            for a in NAMES:
                if self.op in ("rename_file", "replace_file"):
                    for b in NAMES:
                        if a != b:
                            yield {"op": self.op, "tree": tn, "a": a, "b": b}
                elif self.op == "remove_directory":
                    for rec in (False, True):
                        yield {"op": self.op, "tree": tn, "a": a, "recursive": rec}
                else:
                    yield {"op": self.op, "tree": tn, "a": a}

    def run(self, c):
        from cfdppy.filestore import NativeFilestore
        fs = NativeFilestore()
        tree = TREES[c["tree"]]
        if "f/below" in (c["a"], c.get("b")) and c["op"] in ("rename_file", "replace_file"):
            return True, "skipped (path below a regular file: the OS answers NotADirectoryError, outside the documented cases)"
        want_status, want_tree = _model(c["op"], tree, c["a"], c.get("b"), c.get("recursive", False))
        with _Scratch() as d:
            _build(d, tree)
            try:
                if c["op"] in ("rename_file", "replace_file"):
                    got = getattr(fs, c["op"])(d / c["a"], d / c["b"])
                elif c["op"] == "remove_directory":
                    got = fs.remove_directory(d / c["a"], c["recursive"])
                else:
                    got = getattr(fs, c["op"])(d / c["a"])
            except Exception as e:  # noqa: BLE001
                return False, f"{c}: raised {type(e).__name__}: {e}"
            have = _snapshot(d)
        from spacepackets.cfdp import FilestoreResponseStatusCode
        ok = got == FilestoreResponseStatusCode[want_status] and have == want_tree
        return ok, (f"{c}: returned {got.name} (model {want_status}); tree {sorted(have)} (model {sorted(want_tree)})" if not ok else "ok")


for _op in ("create_file", "delete_file", "create_directory", "remove_directory", "rename_file", "replace_file"):
    ORACLES["cfdppy.filestore.NativeFilestore." + _op] = TreeOracle(_op)
