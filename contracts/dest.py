"""Contracts of cfdppy.handler.dest.DestHandler (real code in /repo/src/cfdppy/handler/dest.py)."""
from __future__ import annotations

import z3

import cfdppy.handler.dest as D
from cfdppy.handler.dest import CompletionDisposition, DestHandler, LostSegmentTracker
from cfdppy.handler.dest import TransactionStep as STEP

from pyvc.core import T, LoopSpec, isnone, val
from pyvc.spec import Clause, Contract, RaiseClause
from pyvc.values import And_, Eq_, Implies_, Not_, Or_, SObj, to_z3_bool, to_z3_int

from .common import *  # noqa: F401,F403
from .common import (
    ACK, CC, FH, UNACK, B, eq, events, handler_for, iff, ne, one_of, pdus, remote_cfg_inv, table_inv, table_is_default,
    table_of, ubf_inv, CfdpState, DeliveryCode, FileStatus, FinishedPdu, NakPdu, AckPdu, DirectiveType,
)
from . import tracker as TR

P = "cfdppy.handler.dest.DestHandler."
IDLE, BUSY = CfdpState.IDLE, CfdpState.BUSY
CANCELED, COMPLETED = CompletionDisposition.CANCELED, CompletionDisposition.COMPLETED
SELF = {"self": T.Obj(DestHandler)}


def params(h):
    return h._params


def mode(h):
    return h._params.pdu_conf.trans_mode


def rcfg(h):
    return val(h._params.remote_cfg)


def opt(x, f, if_none):
    """formula over an optional: f(value) when present, `if_none` when None"""
    from pyvc.values import SOpt
    if x is None:
        return if_none
    if isinstance(x, SOpt):
        inner = f(x.val)
        return And_(Implies_(x.isnone, if_none), Implies_(Not_(x.isnone), inner))
    return f(x)


def dest_inv(h):
    st, p = h.states, h._params
    fp, ap, pa = p.fp, p.acked_params, p.positive_ack_params
    m = mode(h)
    present = lambda x: opt(x, lambda v: True, False)  # noqa: E731
    L = [
        ("D1.idle_iff", iff(eq(st.state, IDLE), eq(st.step, STEP.IDLE))),
        ("D1.state_dom", one_of(st.state, [IDLE, BUSY])),
        ("D2.busy_has_ids", Implies_(ne(st.state, IDLE), And_(present(p.transaction_id), present(p.remote_cfg)))),
        ("D3.ready_count", to_z3_int(st._num_packets_ready) == h._pdus_to_be_sent.length()),
        ("cfg.table", table_inv(table_of(h))),
        ("cfg.local_id", ubf_inv(h.cfg.local_entity_id)),
        ("cfg.remote", opt(p.remote_cfg, remote_cfg_inv, True)),
        ("D4.finished_ack_wait", Implies_(eq(st.step, STEP.WAITING_FOR_FINISHED_ACK), And_(
            eq(m, ACK), present(pa.ack_timer), 0 <= pa.ack_counter,
            opt(p.remote_cfg, lambda rc: pa.ack_counter < rc.positive_ack_timer_expiration_limit, False)))),
        ("D5.check_limit_wait", Implies_(eq(st.step, STEP.RECV_FILE_DATA_WITH_CHECK_LIMIT_HANDLING), And_(
            eq(m, UNACK), present(p.check_timer), present(fp.file_size_eof), 0 <= p.current_check_count,
            opt(p.remote_cfg, lambda rc: p.current_check_count < rc.check_limit, False)))),
        ("D6.deferred", Implies_(B(ap.deferred_lost_segment_detection_active), And_(
            eq(m, ACK), present(fp.file_size_eof),
            opt(ap.procedure_timer, lambda t: And_(0 <= ap.nak_activity_counter, opt(
                p.remote_cfg, lambda rc: ap.nak_activity_counter < rc.nak_timer_expiration_limit, False)), True)))),
        ("D6.timer_only_deferred", opt(ap.procedure_timer, lambda t: B(ap.deferred_lost_segment_detection_active), True)),
        ("D7.counters", And_(fp.progress >= 0, ap.last_start_offset >= 0, ap.last_start_offset <= ap.last_end_offset)),
    ]
    return L


def inv_formula(h):
    return And_(*[f for _, f in dest_inv(h)])


def inv_clauses(props=()):
    n = len(dest_inv_labels())
    out = []
    for i, lbl in enumerate(dest_inv_labels()):
        out.append(Clause(f"inv.{lbl}", (lambda i: (lambda o, n, r: dest_inv(n.self)[i][1]))(i), props))
    return out


_labels = None


def dest_inv_labels():
    global _labels
    if _labels is None:
        # labels do not depend on the state: build them from a throw-away symbolic handler
        from pyvc.core import Interp, PathCtx
        from stubs.world import WORLD
        I = Interp(PathCtx([]), WORLD)
        h = I.fresh_obj(DestHandler, "labels")
        _labels = [l for l, _ in dest_inv(h)]
    return _labels


REQ_INV = [("DestInv", lambda o: inv_formula(o.self))]

CONTRACTS = []


def C(name, **kw):
    c = Contract(P + name, **kw)
    CONTRACTS.append(c)
    return c


# ==============================================================================================
# C14: fault declaration dispatches on the configured handler code
# ==============================================================================================
def _fh(o):
    return handler_for(table_of(o.self), o.cond)


def _one_cb(n, name, o):
    """exactly one fault callback, of kind `name`, with (transaction id, cond, progress at declaration)."""
    cbs = [e for e in n.trace if e["kind"] == "fault_cb"]
    if len(cbs) != 1 or cbs[0]["name"] != name:
        return False
    e = cbs[0]
    tid_old = val(o.self._params.transaction_id)
    return And_(Eq_(e["cond"], o.cond), Eq_(e["progress"], o.self._params.fp.progress),
                Eq_(e["transaction_id"].source_id.value, tid_old.source_id.value),
                Eq_(e["transaction_id"].seq_num.value, tid_old.seq_num.value))


def _busy(o):
    return And_(ne(o.self.states.state, IDLE), Not_(isnone(o.self._params.transaction_id)))


C("_declare_fault", arg_types={**SELF, "cond": T.Enum(CC)}, props=("C14",), result=None,
  requires=REQ_INV + [("busy", _busy), ("cond_in_table", lambda o: one_of(o.cond, FAULT_CONDITIONS))],
  modifies=["self.states.step", "self.states.state", "self._params", "self._params.finished_params.condition_code",
            "self._params.completion_disposition"],
  ensures=[
      Clause("C14.returns_code", lambda o, n, r: Eq_(r, _fh(o)), ("C14",)),
      Clause("C14.ignore", lambda o, n, r: Implies_(Eq_(_fh(o), FH.IGNORE_ERROR), And_(
          _one_cb(n, "ignore_cb", o), Eq_(n.self.states.step, o.self.states.step), Eq_(n.self.states.state, o.self.states.state),
          n.self._params is not None and n.self._params.oid == o.self._params.oid,
          Eq_(n.self._params.completion_disposition, o.self._params.completion_disposition),
          Eq_(n.self._params.finished_params.condition_code, o.self._params.finished_params.condition_code))), ("C14",)),
      Clause("C14.cancel", lambda o, n, r: Implies_(Eq_(_fh(o), FH.NOTICE_OF_CANCELLATION), And_(
          _one_cb(n, "notice_of_cancellation_cb", o), Eq_(n.self.states.step, STEP.TRANSFER_COMPLETION),
          Eq_(n.self.states.state, o.self.states.state), n.self._params.oid == o.self._params.oid,
          Eq_(n.self._params.completion_disposition, CANCELED),
          Eq_(n.self._params.finished_params.condition_code, o.cond))), ("C14", "C04")),
      Clause("C14.abandon", lambda o, n, r: Implies_(Eq_(_fh(o), FH.ABANDON_TRANSACTION), And_(
          _one_cb(n, "abandoned_cb", o), Eq_(n.self.states.step, STEP.IDLE), Eq_(n.self.states.state, IDLE))), ("C14",)),
      Clause("C14.suspend_unimplemented", lambda o, n, r: Implies_(Eq_(_fh(o), FH.NOTICE_OF_SUSPENSION), And_(
          _one_cb(n, "notice_of_suspension_cb", o), Eq_(n.self.states.step, o.self.states.step),
          n.self._params.oid == o.self._params.oid)), ("C14",)),
      Clause("C14.no_pdu_no_indication", lambda o, n, r: len([e for e in n.trace if e["kind"] in ("pdu", "ind", "vfs")]) == 0, ("C14",)),
  ],
  modular=False)


# ==============================================================================================
# helpers over the trace of the verified path
# ==============================================================================================
def fault_cbs(n):
    return [e for e in n.trace if e["kind"] == "fault_cb"]


def emitted(n, cls=None):
    return [e["pdu"] for e in n.trace if e["kind"] == "pdu" and (cls is None or e["pdu"].cls is cls)]


def inds(n, name=None):
    return [e for e in n.trace if e["kind"] == "ind" and (name is None or e["name"] == name)]


def vfs_ops(n, op=None):
    return [e for e in n.trace if e["kind"] == "vfs" and (op is None or e["op"] == op)]


def timer_resets(n):
    return [e for e in n.trace if e["kind"] == "timer_reset"]


def declared(n, cond, cb=None):
    """formula: exactly one fault callback on this path and it carries `cond` (and is of kind cb)"""
    f = fault_cbs(n)
    if len(f) != 1:
        return False
    if cb is not None and f[0]["name"] != cb:
        return False
    return Eq_(f[0]["cond"], cond)


def no_fault(n):
    return len(fault_cbs(n)) == 0


def default_table(o):
    return table_is_default(table_of(o.self))


def step_is(h, *steps):
    return one_of(h.states.step, list(steps))


def qempty(h):
    return h._pdus_to_be_sent.length() == 0


DEFAULT = [("default_fault_table", default_table)]


def unchanged(o, n, *paths):
    fs = []
    for p in paths:
        a, b = o.self, n.self
        for part in p.split("."):
            a = getattr(a, part)
            b = getattr(b, part)
        fs.append(Eq_(a, b))
    return And_(*fs)


# ==============================================================================================
# C04 (receiver): Finished PDU positive acknowledgement procedure
# ==============================================================================================
def _pa(h):
    return h._params.positive_ack_params


def _pa_expired(o):
    return B(val(_pa(o.self).ack_timer).expired)


def _pa_limit_hit(o):
    return _pa(o.self).ack_counter + 1 >= rcfg(o.self).positive_ack_timer_expiration_limit


def _pa_pre(o):
    h = o.self
    return And_(step_is(h, STEP.WAITING_FOR_FINISHED_ACK), ne(h.states.state, IDLE),
                Implies_(_pa_expired(o), qempty(h)))


def _fin_pdu_is_live(n):
    ps = emitted(n, FinishedPdu)
    return len(ps) == 1 and ps[0].finished_params.oid == n.self._params.finished_params.oid


C("_handle_positive_ack_procedures", arg_types=SELF, props=("C04",), result=None,
  requires=REQ_INV + DEFAULT + [("in_ack_wait", _pa_pre)],
  modifies=["self._params.positive_ack_params.ack_counter", "self._params.positive_ack_params.ack_timer",
            "self._params.positive_ack_params.ack_timer.expired", "self._pdus_to_be_sent", "self.states._num_packets_ready", "self.states.step", "self.states.state",
            "self._params.finished_params.condition_code", "self._params.finished_params.file_status",
            "self._params.completion_disposition", "self._params"],
  ensures=[
      Clause("C04.fin.not_expired_is_noop", lambda o, n, r: Implies_(Not_(_pa_expired(o)), And_(
          len(n.trace) == 0, unchanged(o, n, "_params.positive_ack_params.ack_counter", "states.step"),
          n.self._pdus_to_be_sent.length() == o.self._pdus_to_be_sent.length())), ("C04",)),
      Clause("C04.fin.resend_below_limit", lambda o, n, r: Implies_(And_(_pa_expired(o), Not_(_pa_limit_hit(o))), And_(
          _pa(n.self).ack_counter == _pa(o.self).ack_counter + 1, _fin_pdu_is_live(n), len(emitted(n)) == 1,
          no_fault(n), len(timer_resets(n)) == 1, step_is(n.self, STEP.WAITING_FOR_FINISHED_ACK),
          len(inds(n)) == 0)), ("C04", "C15")),
      Clause("C04.fin.fault_exactly_at_limit", lambda o, n, r: Implies_(And_(_pa_expired(o), _pa_limit_hit(o)), And_(
          Implies_(ne(o.self._params.completion_disposition, CANCELED),
                   declared(n, CC.POSITIVE_ACK_LIMIT_REACHED, "notice_of_cancellation_cb")),
          Implies_(eq(o.self._params.completion_disposition, CANCELED),
                   declared(n, CC.POSITIVE_ACK_LIMIT_REACHED, "abandoned_cb")))), ("C04", "C14")),
      Clause("C04.fin.no_fault_before_limit", lambda o, n, r: Implies_(Not_(And_(_pa_expired(o), _pa_limit_hit(o))),
          no_fault(n)), ("C04",)),
      Clause("C04.fin.cancel_on_first_limit", lambda o, n, r: Implies_(And_(
          _pa_expired(o), _pa_limit_hit(o), ne(o.self._params.completion_disposition, CANCELED)), And_(
          step_is(n.self, STEP.WAITING_FOR_FINISHED_ACK), _pa(n.self).ack_counter == 0, _fin_pdu_is_live(n),
          Eq_(n.self._params.finished_params.condition_code, CC.POSITIVE_ACK_LIMIT_REACHED),
          Eq_(n.self._params.completion_disposition, CANCELED))), ("C04", "C14")),
      # CFDP 4.11.2.3: a limit fault during the cancel exchange must end the transaction (bounded retries)
      Clause("C04.fin.abandon_when_cancel_exchange_times_out", lambda o, n, r: Implies_(And_(
          _pa_expired(o), _pa_limit_hit(o), eq(o.self._params.completion_disposition, CANCELED)),
          And_(eq(n.self.states.state, IDLE), len(emitted(n)) == 0)), ("C04",)),
  ] + inv_clauses(("C04",)),
  modular=False)


# ==============================================================================================
# C01: DATA_COMPLETE is only ever established under the checksum guard
# ==============================================================================================
from stubs.cfdp import FS, fs_checksum, NULL_CK  # noqa: E402
from spacepackets.cfdp import ChecksumType  # noqa: E402

FS0 = z3.Const("fs0", FS)


def _ck_matches(o):
    p = o.self._params
    crc = val(p.fp.crc32)
    return Eq_(fs_checksum(FS0, to_z3_int(p.checksum_type), p.fp.file_name.p, to_z3_int(p.fp.progress)), crc.b)


def _ck_trivial(o):
    p = o.self._params
    return Or_(eq(p.checksum_type, ChecksumType.NULL_CHECKSUM), B(p.fp.metadata_only))


def _fpar(h):
    return h._params.finished_params


C("_checksum_verify", arg_types=SELF, props=("C01",), result=T.Bool,
  requires=REQ_INV + DEFAULT + [
      ("busy", lambda o: ne(o.self.states.state, IDLE)),
      ("eof_seen", lambda o: Or_(_ck_trivial(o), Not_(isnone(o.self._params.fp.crc32)))),
      # D9 (C12/C14): a cancelled transaction keeps its cancel condition -> verification must not run when cancelled
      ("not_cancelled", lambda o: ne(o.self._params.completion_disposition, CANCELED)),
  ],
  modifies=["self._params.finished_params.delivery_code", "self._params.finished_params.condition_code"],
  ensures=[
      Clause("C01.guard", lambda o, n, r: iff(r, Or_(_ck_trivial(o), _ck_matches(o))), ("C01", "C09")),
      Clause("C01.complete_iff_verified", lambda o, n, r: And_(
          Implies_(r, And_(eq(_fpar(n.self).delivery_code, DeliveryCode.DATA_COMPLETE),
                           eq(_fpar(n.self).condition_code, CC.NO_ERROR))),
          Implies_(Not_(r), And_(Eq_(_fpar(n.self).delivery_code, _fpar(o.self).delivery_code),
                                 Eq_(_fpar(n.self).condition_code, _fpar(o.self).condition_code)))), ("C01",)),
      Clause("C01.checksum_over_progress", lambda o, n, r: Implies_(Not_(_ck_trivial(o)), (
          len(vfs_ops(n, "calculate_checksum")) == 1 and And_(
              Eq_(vfs_ops(n, "calculate_checksum")[0]["path"], o.self._params.fp.file_name),
              Eq_(vfs_ops(n, "calculate_checksum")[0]["size"], o.self._params.fp.progress),
              Eq_(vfs_ops(n, "calculate_checksum")[0]["checksum_type"], o.self._params.checksum_type)))), ("C01", "C05")),
      Clause("C13.failure_declared_and_ignored", lambda o, n, r: And_(
          Implies_(Not_(r), declared(n, CC.FILE_CHECKSUM_FAILURE, "ignore_cb")), Implies_(r, no_fault(n))), ("C13", "C14")),
      Clause("C05.no_write", lambda o, n, r: len([e for e in vfs_ops(n) if e["op"] != "calculate_checksum"]) == 0
             and len(emitted(n)) == 0 and len(inds(n)) == 0, ("C05",)),
  ],
  modular=False)


# ==============================================================================================
# C13: check-limit handling in unacknowledged mode
# ==============================================================================================
def _cl_expired(o):
    return B(val(o.self._params.check_timer).expired)


def _cl_hit(o):
    return o.self._params.current_check_count + 1 >= rcfg(o.self).check_limit


def _cl_ok(o):
    return Or_(_ck_trivial(o), _ck_matches(o))


C("_check_limit_handling", arg_types=SELF, props=("C13",), result=None,
  requires=REQ_INV + DEFAULT + [
      ("in_check_limit_step", lambda o: And_(step_is(o.self, STEP.RECV_FILE_DATA_WITH_CHECK_LIMIT_HANDLING),
                                             ne(o.self.states.state, IDLE))),
      ("eof_seen", lambda o: Not_(isnone(o.self._params.fp.crc32))),
      ("not_cancelled", lambda o: ne(o.self._params.completion_disposition, CANCELED)),
      ("incomplete_so_far", lambda o: eq(_fpar(o.self).delivery_code, DeliveryCode.DATA_INCOMPLETE)),
  ],
  modifies=["self._params.finished_params.delivery_code", "self._params.finished_params.condition_code",
            "self._params.current_check_count", "self._params.check_timer.expired", "self.states.step",
            "self._params.completion_disposition"],
  ensures=[
      Clause("C13.not_expired_is_noop", lambda o, n, r: Implies_(Not_(_cl_expired(o)), And_(
          len(n.trace) == 0, unchanged(o, n, "_params.current_check_count", "states.step"))), ("C13",)),
      Clause("C13.late_data_completes", lambda o, n, r: Implies_(And_(_cl_expired(o), _cl_ok(o)), And_(
          step_is(n.self, STEP.TRANSFER_COMPLETION), eq(_fpar(n.self).delivery_code, DeliveryCode.DATA_COMPLETE),
          eq(_fpar(n.self).condition_code, CC.NO_ERROR), no_fault(n),
          eq(n.self._params.completion_disposition, COMPLETED))), ("C13",)),
      Clause("C13.limit_fault_exactly_at_limit", lambda o, n, r: Implies_(And_(_cl_expired(o), Not_(_cl_ok(o))), And_(
          Implies_(_cl_hit(o), And_(
              len(fault_cbs(n)) == 2 and And_(Eq_(fault_cbs(n)[1]["cond"], CC.CHECK_LIMIT_REACHED),
                                             fault_cbs(n)[1]["name"] == "notice_of_cancellation_cb"),
              step_is(n.self, STEP.TRANSFER_COMPLETION), eq(_fpar(n.self).delivery_code, DeliveryCode.DATA_INCOMPLETE),
              eq(_fpar(n.self).condition_code, CC.CHECK_LIMIT_REACHED), eq(n.self._params.completion_disposition, CANCELED))),
          Implies_(Not_(_cl_hit(o)), And_(
              len(fault_cbs(n)) == 1, n.self._params.current_check_count == o.self._params.current_check_count + 1,
              len(timer_resets(n)) == 1, step_is(n.self, STEP.RECV_FILE_DATA_WITH_CHECK_LIMIT_HANDLING),
              eq(_fpar(n.self).delivery_code, DeliveryCode.DATA_INCOMPLETE))))), ("C13", "C14")),
      Clause("C13.no_pdu_no_indication_here", lambda o, n, r: len(emitted(n)) == 0 and len(inds(n)) == 0, ("C13",)),
  ] + inv_clauses(("C13",)),
  modular=False)


# ==============================================================================================
# well-formed inbound PDUs
# ==============================================================================================
from stubs.cfdp import PDU_CLASSES  # noqa: E402
from spacepackets.cfdp.pdu import EofPdu, FileDataPdu, MetadataPdu  # noqa: E402
from spacepackets.cfdp import TransactionId, Direction, PduType, EntityIdTlv  # noqa: E402
from pyvc.values import blen, SBytes  # noqa: E402


def conf_wf(c):
    return And_(ubf_inv(c.source_entity_id), ubf_inv(c.dest_entity_id), ubf_inv(c.transaction_seq_num))


def pdu_wf(p):
    """class invariant of a PDU object produced by the library (constructor or unpack)"""
    if p is None:
        return True
    fs = [conf_wf(p.pdu_conf)]
    if p.cls is FileDataPdu:
        fs += [p.offset >= 0]
    elif p.cls is EofPdu:
        fs += [p.file_size >= 0, p.file_checksum.length() == 4]
    elif p.cls is MetadataPdu:
        fs += [p.file_size >= 0]
    elif p.cls is NakPdu:
        i = z3.Int("nk!i")
        L = p.segment_requests.items
        fs += [p.start_of_scope >= 0, p.end_of_scope >= 0,
               z3.ForAll([i], z3.Implies(z3.And(0 <= i, i < L.n), z3.And(L.a[i] >= 0, L.b[i] >= 0)))]
    elif p.cls is AckPdu:
        fs += [one_of(p.directive_code_of_acked_pdu, [DirectiveType.EOF_PDU, DirectiveType.FINISHED_PDU])]
    return And_(*fs)


ANY_PDU = T.OneOf(PDU_CLASSES, allow_none=True)


def id_bytes(u):
    from stubs.cfdp import ubf_bytes
    return SBytes(ubf_bytes(to_z3_int(u.value), to_z3_int(u.byte_len)))


def tid_eq(a, b):
    return And_(Eq_(a.source_id.value, b.source_id.value), Eq_(a.seq_num.value, b.seq_num.value))


# ==============================================================================================
# C12: cancel request at the receiver
# ==============================================================================================
def _cr_match(o):
    h = o.self
    return And_(ne(h.states.state, IDLE), Not_(isnone(h._params.transaction_id)),
                tid_eq(o.transaction_id, val(h._params.transaction_id)))


C("cancel_request", arg_types={**SELF, "transaction_id": T.Obj(TransactionId)}, props=("C12",), result=T.Bool,
  requires=REQ_INV,
  modifies=["self._params.completion_disposition", "self._params.finished_params.condition_code",
            "self._params.finished_params.fault_location", "self.states.step"],
  ensures=[
      Clause("C12.dest.returns_true_iff_active_id", lambda o, n, r: iff(r, _cr_match(o)), ("C12",)),
      Clause("C12.dest.cancel_effect", lambda o, n, r: Implies_(r, And_(
          eq(n.self._params.completion_disposition, CANCELED),
          eq(_fpar(n.self).condition_code, CC.CANCEL_REQUEST_RECEIVED),
          opt(_fpar(n.self).fault_location, lambda t: Eq_(t.entity_id, id_bytes(o.self.cfg.local_entity_id)), False),
          step_is(n.self, STEP.TRANSFER_COMPLETION))), ("C12",)),
      Clause("C12.dest.refused_changes_nothing", lambda o, n, r: Implies_(Not_(r), And_(
          unchanged(o, n, "states.step", "_params.completion_disposition", "_params.finished_params.condition_code"))), ("C12",)),
      Clause("C12.dest.silent", lambda o, n, r: len(n.trace) == 0, ("C12",)),
  ] + inv_clauses(("C12",)),
  raises=[RaiseClause("C10.unretrieved_truthful", D.UnretrievedPdusToBeSent, iff=True,
                      when=lambda o: And_(ne(o.self.states.state, IDLE), o.self._pdus_to_be_sent.length() > 0),
                      props=("C10", "C12"), modifies=[])],
  modular=False)


# ==============================================================================================
# notice of completion / finished PDU (C05 deletion, C12 disposition, C15 finished indication)
# ==============================================================================================
def _noc_deletes(o):
    h = o.self
    return And_(eq(h._params.completion_disposition, CANCELED), B(rcfg(h).disposition_on_cancellation),
                eq(_fpar(h).delivery_code, DeliveryCode.DATA_INCOMPLETE))


def _fin_ind_ok(o, n):
    """the Transaction-Finished indication: issued iff the switch is on; carries the transaction's id and the
    very finished_params object that the Finished PDU will carry"""
    sw = B(o.self.cfg.indication_cfg.transaction_finished_indication_required)
    es = inds(n, "transaction_finished_indication")
    if len(es) == 0:
        return Not_(sw)
    if len(es) != 1:
        return False
    par = es[0]["args"][0]
    tid = par.transaction_id
    return And_(sw, tid_eq(tid, val(o.self._params.transaction_id)),
                par.finished_params.oid == o.self._params.finished_params.oid)


NOC_MOD = ["self._params.finished_params.file_status"]

C("_notice_of_completion", arg_types=SELF, props=("C12", "C15", "C05"), result=None,
  requires=REQ_INV + [("busy", lambda o: ne(o.self.states.state, IDLE))],
  modifies=NOC_MOD,
  ensures=[
      Clause("C12.disposition_deletes_exactly_when_configured", lambda o, n, r: (
          (len(vfs_ops(n)) == 1 and vfs_ops(n)[0]["op"] == "delete_file" and And_(
              _noc_deletes(o), Eq_(vfs_ops(n)[0]["path"], o.self._params.fp.file_name),
              eq(_fpar(n.self).file_status, FileStatus.DISCARDED_DELIBERATELY)))
          if len(vfs_ops(n)) > 0 else And_(Not_(_noc_deletes(o)),
                                          Eq_(_fpar(n.self).file_status, _fpar(o.self).file_status))), ("C12", "C05")),
      Clause("C15.finished_indication_faithful", lambda o, n, r: _fin_ind_ok(o, n), ("C15",)),
      Clause("C15.no_other_indication_no_pdu", lambda o, n, r: len(inds(n)) == len(inds(n, "transaction_finished_indication"))
             and len(emitted(n)) == 0 and len(fault_cbs(n)) == 0, ("C15",)),
  ],
  modular=False)


def _needs_finished_pdu(o):
    h = o.self
    return Or_(And_(eq(mode(h), UNACK), B(h._params.closure_requested)), eq(mode(h), ACK))


C("_handle_transfer_completion", arg_types=SELF, props=("C12", "C15", "C02"), result=None,
  requires=REQ_INV + [("in_completion", lambda o: And_(ne(o.self.states.state, IDLE), step_is(o.self, STEP.TRANSFER_COMPLETION)))],
  modifies=NOC_MOD + ["self.states.step", "self.states.state", "self._params"],
  ensures=[
      Clause("C15.finished_indication_faithful", lambda o, n, r: _fin_ind_ok(o, n), ("C15", "C12")),
      Clause("C12.reported_condition_is_current", lambda o, n, r: (
          len(inds(n, "transaction_finished_indication")) == 0 or
          Eq_(inds(n, "transaction_finished_indication")[0]["args"][0].finished_params.condition_code,
              _fpar(o.self).condition_code)), ("C12", "C14")),
      Clause("C02.next_step", lambda o, n, r: And_(
          Implies_(_needs_finished_pdu(o), And_(step_is(n.self, STEP.SENDING_FINISHED_PDU), n.self._params.oid == o.self._params.oid)),
          Implies_(Not_(_needs_finished_pdu(o)), And_(step_is(n.self, STEP.IDLE), eq(n.self.states.state, IDLE)))), ("C02", "C12")),
      Clause("C05.only_delete_of_dest", lambda o, n, r: all(
          e["op"] == "delete_file" for e in vfs_ops(n)) and And_(*[Eq_(e["path"], o.self._params.fp.file_name) for e in vfs_ops(n)]), ("C05",)),
  ] + inv_clauses(("C02",)),
  modular=False)


C("_prepare_finished_pdu", arg_types=SELF, props=("C15", "C10"), result=None,
  requires=REQ_INV + [("busy", lambda o: ne(o.self.states.state, IDLE))],
  modifies=["self._pdus_to_be_sent", "self.states._num_packets_ready"],
  ensures=[
      Clause("C15.finished_pdu_carries_live_params", lambda o, n, r: _fin_pdu_is_live(n) and len(emitted(n)) == 1 and And_(
          eq(emitted(n)[0].pdu_conf.direction, Direction.TOWARDS_SENDER),
          Eq_(emitted(n)[0].pdu_conf.trans_mode, mode(o.self)),
          Eq_(emitted(n)[0].pdu_conf.transaction_seq_num.value, o.self._params.pdu_conf.transaction_seq_num.value),
          Eq_(emitted(n)[0].pdu_conf.source_entity_id.value, o.self._params.pdu_conf.source_entity_id.value)), ("C15", "C12")),
  ] + inv_clauses(("C10",)),
  raises=[RaiseClause("C10.unretrieved_truthful", D.UnretrievedPdusToBeSent, iff=True,
                      when=lambda o: o.self._pdus_to_be_sent.length() > 0, props=("C10",), modifies=[])],
  modular=False)


# ==============================================================================================
# EOF handling (C12 EOF(cancel), C13 deferral, C01 EOF fields, C15 EOF-Recv)
# ==============================================================================================
def _eof_ind_ok(o, n):
    sw = B(o.self.cfg.indication_cfg.eof_recv_indication_required)
    es = inds(n, "eof_recv_indication")
    if len(es) == 0:
        return Not_(sw)
    if len(es) != 1:
        return False
    return And_(sw, tid_eq(es[0]["args"][0], val(o.self._params.transaction_id)))


def _eof_is_cancel(o):
    return ne(o.eof_pdu.condition_code, CC.NO_ERROR)


def _eof_ack_emitted(o, n):
    ps = emitted(n)
    if len(ps) != 1 or ps[0].cls is not AckPdu:
        return False
    a = ps[0]
    return And_(eq(a.directive_code_of_acked_pdu, DirectiveType.EOF_PDU), eq(a.pdu_conf.direction, Direction.TOWARDS_SENDER),
                Eq_(a.condition_code_of_acked_pdu, _fpar(n.self).condition_code),
                Eq_(a.pdu_conf.transaction_seq_num.value, o.self._params.pdu_conf.transaction_seq_num.value))


def _ck_matches_after_eof(o):
    """checksum of the destination file over the progress known when the EOF is processed == EOF checksum"""
    p = o.self._params
    return Eq_(fs_checksum(FS0, to_z3_int(p.checksum_type), p.fp.file_name.p, to_z3_int(p.fp.progress)), o.eof_pdu.file_checksum.b)


EOF_MOD = ["self._params.fp.crc32", "self._params.fp.file_size_eof", "self._params.fp.progress",
           "self._params.completion_disposition", "self._params.finished_params.condition_code",
           "self._params.finished_params.fault_location", "self._params.finished_params.delivery_code",
           "self.states.step", "self._pdus_to_be_sent", "self.states._num_packets_ready",
           "self._params.acked_params.lost_seg_tracker.lost_segments", "self._params.check_timer",
           "self._params.current_check_count"]

C("_handle_eof_pdu", arg_types={**SELF, "eof_pdu": T.Obj(EofPdu)}, props=("C12", "C13", "C01"), result=T.Opt(T.Bool),
  requires=REQ_INV + DEFAULT + [
      ("receiving", lambda o: And_(ne(o.self.states.state, IDLE),
                                   step_is(o.self, STEP.RECEIVING_FILE_DATA, STEP.RECV_FILE_DATA_WITH_CHECK_LIMIT_HANDLING))),
      ("pdu_wf", lambda o: pdu_wf(o.eof_pdu)),
      ("not_cancelled", lambda o: ne(o.self._params.completion_disposition, CANCELED)),
      ("file_params", lambda o: Not_(B(o.self._params.fp.metadata_only))),
      ("incomplete_so_far", lambda o: eq(_fpar(o.self).delivery_code, DeliveryCode.DATA_INCOMPLETE)),
  ],
  modifies=EOF_MOD,
  ensures=[
      Clause("C01.eof_fields_stored", lambda o, n, r: And_(
          opt(n.self._params.fp.crc32, lambda c: Eq_(c, o.eof_pdu.file_checksum), False),
          opt(n.self._params.fp.file_size_eof, lambda s: Eq_(s, o.eof_pdu.file_size), False)), ("C01",)),
      Clause("C15.eof_recv_indication", lambda o, n, r: _eof_ind_ok(o, n), ("C15",)),
      Clause("C12.eof_cancel_finishes_with_eof_condition", lambda o, n, r: Implies_(_eof_is_cancel(o), And_(
          eq(n.self._params.completion_disposition, CANCELED),
          Eq_(_fpar(n.self).condition_code, o.eof_pdu.condition_code),
          opt(_fpar(n.self).fault_location, lambda t: Eq_(t.entity_id, id_bytes(rcfg(o.self).entity_id)), False),
          eq(_fpar(n.self).delivery_code, DeliveryCode.DATA_INCOMPLETE),
          Implies_(eq(mode(o.self), UNACK), And_(step_is(n.self, STEP.TRANSFER_COMPLETION), len(emitted(n)) == 0)),
          Implies_(eq(mode(o.self), ACK), And_(step_is(n.self, STEP.SENDING_EOF_ACK_PDU), _eof_ack_emitted(o, n))),
          no_fault(n))), ("C12",)),
      Clause("C13.eof_before_data_defers_completion", lambda o, n, r: Implies_(And_(
          Not_(_eof_is_cancel(o)), eq(mode(o.self), UNACK), o.self._params.fp.progress <= o.eof_pdu.file_size,
          ne(o.self._params.checksum_type, ChecksumType.NULL_CHECKSUM), Not_(_ck_matches_after_eof(o))), And_(
          step_is(n.self, STEP.RECV_FILE_DATA_WITH_CHECK_LIMIT_HANDLING), n.self._params.current_check_count == 0,
          opt(n.self._params.check_timer, lambda t: Not_(B(t.expired)), False),
          # (the unchanged code declares the checksum failure twice here: once in _checksum_verify, once in
          #  _handle_no_error_eof; both are ignore callbacks for the same condition)
          len(fault_cbs(n)) >= 1 and all(e["name"] == "ignore_cb" for e in fault_cbs(n)) and And_(
              *[Eq_(e["cond"], CC.FILE_CHECKSUM_FAILURE) for e in fault_cbs(n)]),
          len(inds(n, "transaction_finished_indication")) == 0, len(emitted(n)) == 0,
          eq(_fpar(n.self).delivery_code, DeliveryCode.DATA_INCOMPLETE))), ("C13",)),
      Clause("C02.complete_eof_unacked", lambda o, n, r: Implies_(And_(
          Not_(_eof_is_cancel(o)), eq(mode(o.self), UNACK), o.self._params.fp.progress <= o.eof_pdu.file_size,
          Or_(eq(o.self._params.checksum_type, ChecksumType.NULL_CHECKSUM), _ck_matches_after_eof(o))), And_(
          step_is(n.self, STEP.TRANSFER_COMPLETION), eq(_fpar(n.self).delivery_code, DeliveryCode.DATA_COMPLETE),
          eq(_fpar(n.self).condition_code, CC.NO_ERROR), no_fault(n), len(emitted(n)) == 0)), ("C02", "C01")),
      Clause("C02.eof_acked_mode_is_acknowledged", lambda o, n, r: Implies_(And_(
          Not_(_eof_is_cancel(o)), eq(mode(o.self), ACK), o.self._params.fp.progress <= o.eof_pdu.file_size), And_(
          step_is(n.self, STEP.SENDING_EOF_ACK_PDU), _eof_ack_emitted(o, n), no_fault(n),
          eq(_fpar(n.self).delivery_code, DeliveryCode.DATA_INCOMPLETE))), ("C02", "C03")),
      Clause("C14.file_size_error_on_overrun", lambda o, n, r: Implies_(And_(
          Not_(_eof_is_cancel(o)), o.self._params.fp.progress > o.eof_pdu.file_size), And_(
          len(fault_cbs(n)) >= 1 and Eq_(fault_cbs(n)[0]["cond"], CC.FILE_SIZE_ERROR),
          eq(n.self._params.completion_disposition, CANCELED),
          eq(_fpar(n.self).condition_code, CC.FILE_SIZE_ERROR))), ("C14", "C01")),
      Clause("C05.eof_does_not_touch_files", lambda o, n, r: all(e["op"] == "calculate_checksum" for e in vfs_ops(n)), ("C05",)),
  ] + inv_clauses(("C12",)),
  modular=False)


# ==============================================================================================
# C05 / C15 / C02: Metadata handling, destination path resolution, file creation
# ==============================================================================================
from stubs.cfdp import fs_is_dir, fs_exists, path_join, path_name, path_of_str, EMPTY_PATH  # noqa: E402
from pyvc.values import SPath, SStr  # noqa: E402


def _resolved_path(o):
    """the property's destination path: the given name, or <dir>/<source base name> when it names a directory"""
    p = o.self._params.fp.file_name.p
    return z3.If(fs_is_dir(FS0, p), path_join(p, o.source_base_name.s), p)


C("_init_vfs_handling", arg_types={**SELF, "source_base_name": T.Str}, props=("C05", "C02", "C14"), result=None,
  requires=REQ_INV + [("busy", _busy_noarg := (lambda o: And_(ne(o.self.states.state, IDLE), Not_(isnone(o.self._params.transaction_id)))))],
  modifies=["self._params.fp.file_name", "self._params.finished_params.file_status", "self.states.step", "self.states.state",
            "self._params.finished_params.condition_code", "self._params.completion_disposition", "self._params"],
  ensures=[
      # no rejection: the resolved file exists and is empty afterwards: truncated if it existed, created otherwise;
      # nothing else in the filestore is touched
      Clause("C05.create_or_truncate_resolved_path", lambda o, n, r: (
          (lambda ops, muts, rej: (
              And_(Eq_(n.self._params.fp.file_name.p, _resolved_path(o)),
                   len(muts) == 1 and And_(
                       Eq_(muts[0]["path"].p, _resolved_path(o)),
                       (fs_exists(FS0, _resolved_path(o)) if muts[0]["op"] == "truncate_file" else Not_(fs_exists(FS0, _resolved_path(o)))),
                       eq(_fpar(n.self).file_status, FileStatus.FILE_RETAINED)))
              if not rej else len(muts) == 0))
          ([e for e in vfs_ops(n)], [e for e in vfs_ops(n) if e["op"] in ("truncate_file", "create_file", "write_data", "delete_file")],
           [e for e in n.trace if e["kind"] == "vfs_rejected"])), ("C05", "C02")),
      Clause("C05.only_queries_and_one_mutation", lambda o, n, r: all(
          e["op"] in ("is_directory", "file_exists", "truncate_file", "create_file") for e in vfs_ops(n)), ("C05",)),
      Clause("C14.filestore_rejection_declared", lambda o, n, r: (
          (lambda rej: (len(fault_cbs(n)) == 1 and Eq_(fault_cbs(n)[0]["cond"], CC.FILESTORE_REJECTION)) if rej else no_fault(n))
          ([e for e in n.trace if e["kind"] == "vfs_rejected" and e["exc"] is PermissionError])), ("C14", "C01")),
      Clause("silent", lambda o, n, r: len(emitted(n)) == 0 and len(inds(n)) == 0, ("C05",)),
  ],
  raises=[RaiseClause("vfs.truncate_race", FileNotFoundError, props=("C10",), modifies=["self._params.fp.file_name"])],
  effects={"vfs", "fault_cb"}, modular=False)
