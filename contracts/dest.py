"""Contracts of cfdppy.handler.dest.DestHandler (real code in /repo/src/cfdppy/handler/dest.py)."""
from __future__ import annotations

import z3

import cfdppy.handler.dest as D
from cfdppy.handler.dest import CompletionDisposition, DestHandler, LostSegmentTracker
from cfdppy.handler.dest import TransactionStep as STEP

from pyvc.core import T, LoopSpec, isnone, val
from pyvc.spec import Clause, Contract, RaiseClause
from pyvc.values import And_, Eq_, Implies_, Not_, Or_, SObj, to_z3_bool, to_z3_int

from .common import *  # noqa: F401,F403
from .common import (
    ACK, CC, FH, UNACK, B, eq, events, handler_for, iff, ne, one_of, pdus, remote_cfg_inv, table_inv, table_is_default,
    table_of, ubf_inv, CfdpState, DeliveryCode, FileStatus, FinishedPdu, NakPdu, AckPdu, DirectiveType,
)
from . import tracker as TR

P = "cfdppy.handler.dest.DestHandler."
IDLE, BUSY = CfdpState.IDLE, CfdpState.BUSY
CANCELED, COMPLETED = CompletionDisposition.CANCELED, CompletionDisposition.COMPLETED
SELF = {"self": T.Obj(DestHandler)}


def params(h):
    return h._params


def mode(h):
    return h._params.pdu_conf.trans_mode


def rcfg(h):
    return val(h._params.remote_cfg)


def dest_inv(h):
    st, p = h.states, h._params
    fp, ap, pa = p.fp, p.acked_params, p.positive_ack_params
    rc = rcfg(h)
    m = mode(h)
    busy_steps = [s for s in STEP if s is not STEP.IDLE]
    L = [
        ("D1.idle_iff", iff(eq(st.state, IDLE), eq(st.step, STEP.IDLE))),
        ("D1.state_dom", one_of(st.state, [IDLE, BUSY])),
        ("D2.busy_has_ids", Implies_(ne(st.state, IDLE), And_(Not_(isnone(p.transaction_id)), Not_(isnone(p.remote_cfg))))),
        ("D3.ready_count", to_z3_int(st._num_packets_ready) == h._pdus_to_be_sent.length()),
        ("cfg.table", table_inv(table_of(h))),
        ("cfg.local_id", ubf_inv(h.cfg.local_entity_id)),
        ("cfg.remote", Implies_(Not_(isnone(p.remote_cfg)), remote_cfg_inv(rc))),
        ("D4.finished_ack_wait", Implies_(eq(st.step, STEP.WAITING_FOR_FINISHED_ACK), And_(
            eq(m, ACK), Not_(isnone(pa.ack_timer)), 0 <= pa.ack_counter,
            pa.ack_counter < rc.positive_ack_timer_expiration_limit))),
        ("D5.check_limit_wait", Implies_(eq(st.step, STEP.RECV_FILE_DATA_WITH_CHECK_LIMIT_HANDLING), And_(
            eq(m, UNACK), Not_(isnone(p.check_timer)), Not_(isnone(fp.file_size_eof)), 0 <= p.current_check_count,
            p.current_check_count < rc.check_limit))),
        ("D6.deferred", Implies_(B(ap.deferred_lost_segment_detection_active), And_(
            eq(m, ACK), Not_(isnone(fp.file_size_eof)),
            Implies_(Not_(isnone(ap.procedure_timer)), And_(0 <= ap.nak_activity_counter,
                                                           ap.nak_activity_counter < rc.nak_timer_expiration_limit))))),
        ("D6.timer_only_deferred", Implies_(Not_(isnone(ap.procedure_timer)), B(ap.deferred_lost_segment_detection_active))),
        ("D7.counters", And_(fp.progress >= 0, ap.last_start_offset >= 0, ap.last_start_offset <= ap.last_end_offset)),
        ("D7.tracker_struct", ap.lost_seg_tracker.lost_segments.d.wf()),
    ]
    return L


def inv_formula(h):
    return And_(*[f for _, f in dest_inv(h)])


def inv_clauses(props=()):
    n = len(dest_inv_labels())
    out = []
    for i, lbl in enumerate(dest_inv_labels()):
        out.append(Clause(f"inv.{lbl}", (lambda i: (lambda o, n, r: dest_inv(n.self)[i][1]))(i), props))
    return out


_labels = None


def dest_inv_labels():
    global _labels
    if _labels is None:
        # labels do not depend on the state: build them from a throw-away symbolic handler
        from pyvc.core import Interp, PathCtx
        from stubs.world import WORLD
        I = Interp(PathCtx([]), WORLD)
        h = I.fresh_obj(DestHandler, "labels")
        _labels = [l for l, _ in dest_inv(h)]
    return _labels


REQ_INV = [("DestInv", lambda o: inv_formula(o.self))]

CONTRACTS = []


def C(name, **kw):
    c = Contract(P + name, **kw)
    CONTRACTS.append(c)
    return c


# ==============================================================================================
# C14: fault declaration dispatches on the configured handler code
# ==============================================================================================
def _fh(o):
    return handler_for(table_of(o.self), o.cond)


def _one_cb(n, name, o):
    """exactly one fault callback, of kind `name`, with (transaction id, cond, progress at declaration)."""
    cbs = [e for e in n.trace if e["kind"] == "fault_cb"]
    if len(cbs) != 1 or cbs[0]["name"] != name:
        return False
    e = cbs[0]
    tid_old = val(o.self._params.transaction_id)
    return And_(Eq_(e["cond"], o.cond), Eq_(e["progress"], o.self._params.fp.progress),
                Eq_(e["transaction_id"].source_id.value, tid_old.source_id.value),
                Eq_(e["transaction_id"].seq_num.value, tid_old.seq_num.value))


def _busy(o):
    return And_(ne(o.self.states.state, IDLE), Not_(isnone(o.self._params.transaction_id)))


C("_declare_fault", arg_types={**SELF, "cond": T.Enum(CC)}, props=("C14",), result=None,
  requires=REQ_INV + [("busy", _busy), ("cond_in_table", lambda o: one_of(o.cond, FAULT_CONDITIONS))],
  modifies=["self.states.step", "self.states.state", "self._params", "self._params.finished_params.condition_code",
            "self._params.completion_disposition"],
  ensures=[
      Clause("C14.returns_code", lambda o, n, r: Eq_(r, _fh(o)), ("C14",)),
      Clause("C14.ignore", lambda o, n, r: Implies_(Eq_(_fh(o), FH.IGNORE_ERROR), And_(
          _one_cb(n, "ignore_cb", o), Eq_(n.self.states.step, o.self.states.step), Eq_(n.self.states.state, o.self.states.state),
          n.self._params is not None and n.self._params.oid == o.self._params.oid,
          Eq_(n.self._params.completion_disposition, o.self._params.completion_disposition),
          Eq_(n.self._params.finished_params.condition_code, o.self._params.finished_params.condition_code))), ("C14",)),
      Clause("C14.cancel", lambda o, n, r: Implies_(Eq_(_fh(o), FH.NOTICE_OF_CANCELLATION), And_(
          _one_cb(n, "notice_of_cancellation_cb", o), Eq_(n.self.states.step, STEP.TRANSFER_COMPLETION),
          Eq_(n.self.states.state, o.self.states.state), n.self._params.oid == o.self._params.oid,
          Eq_(n.self._params.completion_disposition, CANCELED),
          Eq_(n.self._params.finished_params.condition_code, o.cond))), ("C14", "C04")),
      Clause("C14.abandon", lambda o, n, r: Implies_(Eq_(_fh(o), FH.ABANDON_TRANSACTION), And_(
          _one_cb(n, "abandoned_cb", o), Eq_(n.self.states.step, STEP.IDLE), Eq_(n.self.states.state, IDLE))), ("C14",)),
      Clause("C14.suspend_unimplemented", lambda o, n, r: Implies_(Eq_(_fh(o), FH.NOTICE_OF_SUSPENSION), And_(
          _one_cb(n, "notice_of_suspension_cb", o), Eq_(n.self.states.step, o.self.states.step),
          n.self._params.oid == o.self._params.oid)), ("C14",)),
      Clause("C14.no_pdu_no_indication", lambda o, n, r: len([e for e in n.trace if e["kind"] in ("pdu", "ind", "vfs")]) == 0, ("C14",)),
  ],
  modular=False)
