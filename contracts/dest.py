"""Contracts of cfdppy.handler.dest.DestHandler (real code in /repo/src/cfdppy/handler/dest.py)."""
from __future__ import annotations

import z3

import cfdppy.handler.dest as D
from cfdppy.handler.dest import CompletionDisposition, DestHandler, LostSegmentTracker
from cfdppy.handler.dest import TransactionStep as STEP

from pyvc.core import T, LoopSpec, isnone, val
from pyvc.spec import Clause, Contract, RaiseClause
from pyvc.values import And_, Eq_, Implies_, Not_, Or_, SObj, to_z3_bool, to_z3_int

from .common import *  # noqa: F401,F403
from .common import (
    ACK, CC, FH, UNACK, B, eq, events, handler_for, iff, ne, one_of, pdus, remote_cfg_inv, table_inv, table_is_default,
    table_of, ubf_inv, CfdpState, DeliveryCode, FileStatus, FinishedPdu, NakPdu, AckPdu, DirectiveType,
)
from . import tracker as TR

P = "cfdppy.handler.dest.DestHandler."
IDLE, BUSY = CfdpState.IDLE, CfdpState.BUSY
CANCELED, COMPLETED = CompletionDisposition.CANCELED, CompletionDisposition.COMPLETED
SELF = {"self": T.Obj(DestHandler)}


def params(h):
    return h._params


def mode(h):
    return h._params.pdu_conf.trans_mode


def rcfg(h):
    return val(h._params.remote_cfg)


def opt(x, f, if_none):
    """formula over an optional: f(value) when present, `if_none` when None"""
    from pyvc.values import SOpt
    if x is None:
        return if_none
    if isinstance(x, SOpt):
        inner = f(x.val)
        return And_(Implies_(x.isnone, if_none), Implies_(Not_(x.isnone), inner))
    return f(x)


def conf_wf_(c):
    return And_(ubf_inv(c.source_entity_id), ubf_inv(c.dest_entity_id), ubf_inv(c.transaction_seq_num))


def step_is_(st, *steps):
    return one_of(st.step, list(steps))


def dest_inv(h):
    st, p = h.states, h._params
    fp, ap, pa = p.fp, p.acked_params, p.positive_ack_params
    m = mode(h)
    present = lambda x: opt(x, lambda v: True, False)  # noqa: E731
    L = [
        ("D1.idle_iff", iff(eq(st.state, IDLE), eq(st.step, STEP.IDLE))),
        ("D1.state_dom", one_of(st.state, [IDLE, BUSY])),
        ("D2.busy_has_ids", Implies_(ne(st.state, IDLE), And_(present(p.transaction_id), present(p.remote_cfg)))),
        ("D3.ready_count", to_z3_int(st._num_packets_ready) == h._pdus_to_be_sent.length()),
        ("cfg.table", table_inv(table_of(h))),
        ("cfg.local_id", ubf_inv(h.cfg.local_entity_id)),
        ("cfg.remote", opt(p.remote_cfg, remote_cfg_inv, True)),
        ("D4.finished_ack_wait", Implies_(eq(st.step, STEP.WAITING_FOR_FINISHED_ACK), And_(
            eq(m, ACK), present(pa.ack_timer), 0 <= pa.ack_counter,
            opt(p.remote_cfg, lambda rc: pa.ack_counter < rc.positive_ack_timer_expiration_limit, False)))),
        ("D5.check_limit_wait", Implies_(eq(st.step, STEP.RECV_FILE_DATA_WITH_CHECK_LIMIT_HANDLING), And_(
            eq(m, UNACK), present(p.check_timer), present(fp.file_size_eof), 0 <= p.current_check_count,
            opt(p.remote_cfg, lambda rc: p.current_check_count < rc.check_limit, False)))),
        ("D6.deferred", Implies_(B(ap.deferred_lost_segment_detection_active), And_(eq(m, ACK), present(fp.file_size_eof)))),
        ("D6.nak_counter", And_(0 <= ap.nak_activity_counter, opt(
            p.remote_cfg, lambda rc: ap.nak_activity_counter < rc.nak_timer_expiration_limit, True),
            Implies_(isnone(ap.procedure_timer), ap.nak_activity_counter == 0))),
        ("D14.metadata_only_not_before_metadata", Implies_(Or_(step_is_(st, STEP.IDLE, STEP.WAITING_FOR_METADATA), B(ap.metadata_missing)),
                                                           Not_(B(fp.metadata_only)))),
        # C11: an idle handler holds a parameter block with constructor values
        ("D13.idle_is_fresh", Implies_(eq(st.state, IDLE), And_(
            Not_(B(ap.deferred_lost_segment_detection_active)), Not_(B(ap.metadata_missing)), isnone(ap.procedure_timer),
            ap.nak_activity_counter == 0, isnone(pa.ack_timer), pa.ack_counter == 0, isnone(p.check_timer), p.current_check_count == 0,
            fp.progress == 0, isnone(fp.file_size_eof), isnone(fp.file_size), Not_(B(fp.metadata_only)),
            eq(p.completion_disposition, COMPLETED), eq(p.finished_params.delivery_code, DeliveryCode.DATA_INCOMPLETE),
            eq(p.finished_params.condition_code, CC.NO_ERROR), ap.last_start_offset == 0, ap.last_end_offset == 0,
            ap.lost_seg_tracker.lost_segments.d.n == 0, isnone(p.transaction_id), isnone(p.remote_cfg)))),
        ("D18.header_fields_well_formed", Implies_(ne(st.state, IDLE), conf_wf_(p.pdu_conf))),
        ("D17.direction_towards_sender", Implies_(ne(st.state, IDLE), eq(p.pdu_conf.direction, Direction.TOWARDS_SENDER))),
        ("D7.counters", And_(fp.progress >= 0, ap.last_start_offset >= 0, ap.last_start_offset <= ap.last_end_offset)),
    ]
    return L


def inv_formula(h):
    return And_(*[f for _, f in dest_inv(h)])


def inv_clauses(props=()):
    n = len(dest_inv_labels())
    out = []
    for i, lbl in enumerate(dest_inv_labels()):
        out.append(Clause(f"inv.{lbl}", (lambda i: (lambda o, n, r: dest_inv(n.self)[i][1]))(i), props))
    return out


_labels = None


def dest_inv_labels():
    global _labels
    if _labels is None:
        # labels do not depend on the state: build them from a throw-away symbolic handler
        from pyvc.core import Interp, PathCtx
        from stubs.world import WORLD
        I = Interp(PathCtx([]), WORLD)
        h = I.fresh_obj(DestHandler, "labels")
        _labels = [l for l, _ in dest_inv(h)]
    return _labels


REQ_INV = [("DestInv", lambda o: inv_formula(o.self))]

CONTRACTS = []


def C(name, **kw):
    c = Contract(P + name, **kw)
    CONTRACTS.append(c)
    return c


# ==============================================================================================
# C14: fault declaration dispatches on the configured handler code
# ==============================================================================================
def _fh(o):
    return handler_for(table_of(o.self), o.cond)


def _one_cb(n, name, o):
    """exactly one fault callback, of kind `name`, with (transaction id, cond, progress at declaration)."""
    cbs = [e for e in n.trace if e["kind"] == "fault_cb"]
    if len(cbs) != 1 or cbs[0]["name"] != name:
        return False
    e = cbs[0]
    tid_old = val(o.self._params.transaction_id)
    return And_(Eq_(e["cond"], o.cond), Eq_(e["progress"], o.self._params.fp.progress),
                Eq_(e["transaction_id"].source_id.value, tid_old.source_id.value),
                Eq_(e["transaction_id"].seq_num.value, tid_old.seq_num.value))


def _busy(o):
    return And_(ne(o.self.states.state, IDLE), Not_(isnone(o.self._params.transaction_id)))


C("_declare_fault", arg_types={**SELF, "cond": T.Enum(CC)}, props=("C14",), result=None,
  requires=REQ_INV + [("busy", _busy), ("cond_in_table", lambda o: one_of(o.cond, FAULT_CONDITIONS))],
  modifies=["self.states.step", "self.states.state", "self._params", "self._params.finished_params.condition_code",
            "self._params.completion_disposition"],
  ensures=[
      Clause("C14.returns_code", lambda o, n, r: Eq_(r, _fh(o)), ("C14",)),
      Clause("C14.ignore", lambda o, n, r: Implies_(Eq_(_fh(o), FH.IGNORE_ERROR), And_(
          _one_cb(n, "ignore_cb", o), Eq_(n.self.states.step, o.self.states.step), Eq_(n.self.states.state, o.self.states.state),
          n.self._params is not None and n.self._params.oid == o.self._params.oid,
          Eq_(n.self._params.completion_disposition, o.self._params.completion_disposition),
          Eq_(n.self._params.finished_params.condition_code, o.self._params.finished_params.condition_code))), ("C14",)),
      Clause("C14.cancel", lambda o, n, r: Implies_(Eq_(_fh(o), FH.NOTICE_OF_CANCELLATION), And_(
          _one_cb(n, "notice_of_cancellation_cb", o), Eq_(n.self.states.step, STEP.TRANSFER_COMPLETION),
          Eq_(n.self.states.state, o.self.states.state), n.self._params.oid == o.self._params.oid,
          Eq_(n.self._params.completion_disposition, CANCELED),
          Eq_(n.self._params.finished_params.condition_code, o.cond))), ("C14", "C04")),
      Clause("C14.abandon", lambda o, n, r: Implies_(Eq_(_fh(o), FH.ABANDON_TRANSACTION), And_(
          _one_cb(n, "abandoned_cb", o), Eq_(n.self.states.step, STEP.IDLE), Eq_(n.self.states.state, IDLE))), ("C14",)),
      Clause("C14.suspend_unimplemented", lambda o, n, r: Implies_(Eq_(_fh(o), FH.NOTICE_OF_SUSPENSION), And_(
          _one_cb(n, "notice_of_suspension_cb", o), Eq_(n.self.states.step, o.self.states.step),
          n.self._params.oid == o.self._params.oid)), ("C14",)),
      Clause("C14.no_pdu_no_indication", lambda o, n, r: len([e for e in n.trace if e["kind"] in ("pdu", "ind", "vfs")]) == 0, ("C14",)),
  ],
  modular=False)


# ==============================================================================================
# helpers over the trace of the verified path
# ==============================================================================================
def fault_cbs(n):
    return [e for e in n.trace if e["kind"] == "fault_cb"]


def emitted(n, cls=None):
    return [e["pdu"] for e in n.trace if e["kind"] == "pdu" and (cls is None or e["pdu"].cls is cls)]


def inds(n, name=None):
    return [e for e in n.trace if e["kind"] == "ind" and (name is None or e["name"] == name)]


def vfs_ops(n, op=None):
    return [e for e in n.trace if e["kind"] == "vfs" and (op is None or e["op"] == op)]


def timer_resets(n):
    return [e for e in n.trace if e["kind"] == "timer_reset"]


def declared(n, cond, cb=None):
    """formula: exactly one fault callback on this path and it carries `cond` (and is of kind cb)"""
    f = fault_cbs(n)
    if len(f) != 1:
        return False
    if cb is not None and f[0]["name"] != cb:
        return False
    return Eq_(f[0]["cond"], cond)


def no_fault(n):
    return len(fault_cbs(n)) == 0


def default_table(o):
    return table_is_default(table_of(o.self))


def step_is(h, *steps):
    return one_of(h.states.step, list(steps))


def qempty(h):
    return h._pdus_to_be_sent.length() == 0


DEFAULT = [("default_fault_table", default_table)]


def unchanged(o, n, *paths):
    fs = []
    for p in paths:
        a, b = o.self, n.self
        for part in p.split("."):
            a = getattr(a, part)
            b = getattr(b, part)
        fs.append(Eq_(a, b))
    return And_(*fs)


# ==============================================================================================
# C04 (receiver): Finished PDU positive acknowledgement procedure
# ==============================================================================================
def _pa(h):
    return h._params.positive_ack_params


def _pa_expired(o):
    return B(val(_pa(o.self).ack_timer).expired)


def _pa_limit_hit(o):
    return _pa(o.self).ack_counter + 1 >= rcfg(o.self).positive_ack_timer_expiration_limit


def _pa_pre(o):
    h = o.self
    return And_(step_is(h, STEP.WAITING_FOR_FINISHED_ACK), ne(h.states.state, IDLE),
                Implies_(_pa_expired(o), qempty(h)))


def _fin_pdu_is_live(n):
    ps = emitted(n, FinishedPdu)
    return len(ps) == 1 and ps[0].finished_params.oid == n.self._params.finished_params.oid


C("_handle_positive_ack_procedures", arg_types=SELF, props=("C04", "C15"), result=None,
  requires=REQ_INV + [("DestInvTracker", lambda o: tracker_inv(o.self)), ("DestStepInv", lambda o: step_inv(o.self))] + DEFAULT + [("in_ack_wait", _pa_pre)],
  modifies=["self._params.positive_ack_params.ack_counter", "self._params.positive_ack_params.ack_timer",
            "self._params.positive_ack_params.ack_timer.expired", "self._pdus_to_be_sent", "self.states._num_packets_ready", "self.states.step", "self.states.state",
            "self._params.finished_params.condition_code", "self._params.finished_params.file_status",
            "self._params.completion_disposition", "self._params"],
  ensures=[
      Clause("C04.fin.not_expired_is_noop", lambda o, n, r: Implies_(Not_(_pa_expired(o)), And_(
          len(n.trace) == 0, unchanged(o, n, "_params.positive_ack_params.ack_counter", "states.step"),
          n.self._pdus_to_be_sent.length() == o.self._pdus_to_be_sent.length())), ("C04",)),
      Clause("C04.fin.resend_below_limit", lambda o, n, r: Implies_(And_(_pa_expired(o), Not_(_pa_limit_hit(o))), And_(
          _pa(n.self).ack_counter == _pa(o.self).ack_counter + 1, _fin_pdu_is_live(n), len(emitted(n)) == 1,
          no_fault(n), len(timer_resets(n)) == 1, step_is(n.self, STEP.WAITING_FOR_FINISHED_ACK),
          len(inds(n)) == 0)), ("C04", "C15")),
      Clause("C04.fin.fault_exactly_at_limit", lambda o, n, r: Implies_(And_(_pa_expired(o), _pa_limit_hit(o)), And_(
          Implies_(ne(o.self._params.completion_disposition, CANCELED),
                   declared(n, CC.POSITIVE_ACK_LIMIT_REACHED, "notice_of_cancellation_cb")),
          Implies_(eq(o.self._params.completion_disposition, CANCELED),
                   declared(n, CC.POSITIVE_ACK_LIMIT_REACHED, "abandoned_cb")))), ("C04", "C14")),
      Clause("C04.fin.no_fault_before_limit", lambda o, n, r: Implies_(Not_(And_(_pa_expired(o), _pa_limit_hit(o))),
          no_fault(n)), ("C04",)),
      Clause("C04.fin.cancel_on_first_limit", lambda o, n, r: Implies_(And_(
          _pa_expired(o), _pa_limit_hit(o), ne(o.self._params.completion_disposition, CANCELED)), And_(
          step_is(n.self, STEP.WAITING_FOR_FINISHED_ACK), _pa(n.self).ack_counter == 0, _fin_pdu_is_live(n),
          Eq_(n.self._params.finished_params.condition_code, CC.POSITIVE_ACK_LIMIT_REACHED),
          Eq_(n.self._params.completion_disposition, CANCELED))), ("C04", "C14")),
      # C15: the user learns the condition that the re-issued Finished PDU carries (Transaction-Finished indication with the live
      # finished-params object, iff the switch is on); re-sends below the limit and the abandonment issue no indication
      Clause("C15.fin.cancel_on_limit_is_indicated", lambda o, n, r: And_(
          Implies_(And_(_pa_expired(o), _pa_limit_hit(o), ne(o.self._params.completion_disposition, CANCELED)), _fin_ind_ok(o, n)),
          Implies_(Not_(And_(_pa_expired(o), _pa_limit_hit(o), ne(o.self._params.completion_disposition, CANCELED))),
                   len(inds(n, "transaction_finished_indication")) == 0)), ("C15",)),
      # CFDP 4.11.2.3: a limit fault during the cancel exchange must end the transaction (bounded retries)
      Clause("C04.fin.abandon_when_cancel_exchange_times_out", lambda o, n, r: Implies_(And_(
          _pa_expired(o), _pa_limit_hit(o), eq(o.self._params.completion_disposition, CANCELED)),
          And_(eq(n.self.states.state, IDLE), len(emitted(n)) == 0)), ("C04",)),
  ] + inv_clauses(("C04",)),
  modular=False)


CONTRACTS[-1].inline_callees = {"DestHandler.__non_idle_fsm", "DestHandler.__idle_fsm"}  # the recursive state_machine() call


# ==============================================================================================
# C01: DATA_COMPLETE is only ever established under the checksum guard
# ==============================================================================================
from stubs.cfdp import FS, fs_checksum, NULL_CK  # noqa: E402
from spacepackets.cfdp import ChecksumType  # noqa: E402

FS0 = z3.Const("fs0", FS)


def _ck_matches(o):
    p = o.self._params
    crc = val(p.fp.crc32)
    return Eq_(fs_checksum(FS0, to_z3_int(p.checksum_type), p.fp.file_name.p, to_z3_int(p.fp.progress)), crc.b)


def _ck_trivial(o):
    p = o.self._params
    return Or_(eq(p.checksum_type, ChecksumType.NULL_CHECKSUM), B(p.fp.metadata_only))


def _fpar(h):
    return h._params.finished_params


C("_checksum_verify", arg_types=SELF, props=("C01",), result=T.Bool,
  requires=REQ_INV + DEFAULT + [
      ("busy", lambda o: ne(o.self.states.state, IDLE)),
      ("eof_seen", lambda o: Or_(_ck_trivial(o), Not_(isnone(o.self._params.fp.crc32)))),
      # D9 (C12/C14): a cancelled transaction keeps its cancel condition -> verification must not run when cancelled
      ("not_cancelled", lambda o: ne(o.self._params.completion_disposition, CANCELED)),
  ],
  modifies=["self._params.finished_params.delivery_code", "self._params.finished_params.condition_code"],
  ensures=[
      Clause("C01.guard", lambda o, n, r: iff(r, Or_(_ck_trivial(o), _ck_matches(o))), ("C01", "C09")),
      Clause("C01.complete_iff_verified", lambda o, n, r: And_(
          Implies_(r, And_(eq(_fpar(n.self).delivery_code, DeliveryCode.DATA_COMPLETE),
                           eq(_fpar(n.self).condition_code, CC.NO_ERROR))),
          Implies_(Not_(r), And_(Eq_(_fpar(n.self).delivery_code, _fpar(o.self).delivery_code),
                                 Eq_(_fpar(n.self).condition_code, _fpar(o.self).condition_code)))), ("C01",)),
      Clause("C01.checksum_over_progress", lambda o, n, r: Implies_(Not_(_ck_trivial(o)), (
          len(vfs_ops(n, "calculate_checksum")) == 1 and And_(
              Eq_(vfs_ops(n, "calculate_checksum")[0]["path"], o.self._params.fp.file_name),
              Eq_(vfs_ops(n, "calculate_checksum")[0]["size"], o.self._params.fp.progress),
              Eq_(vfs_ops(n, "calculate_checksum")[0]["checksum_type"], o.self._params.checksum_type)))), ("C01", "C05")),
      Clause("C13.failure_declared_and_ignored", lambda o, n, r: And_(
          Implies_(Not_(r), declared(n, CC.FILE_CHECKSUM_FAILURE, "ignore_cb")), Implies_(r, no_fault(n))), ("C13", "C14")),
      Clause("C05.no_write", lambda o, n, r: len([e for e in vfs_ops(n) if e["op"] != "calculate_checksum"]) == 0
             and len(emitted(n)) == 0 and len(inds(n)) == 0, ("C05",)),
  ],
  modular=False)


# ==============================================================================================
# C13: check-limit handling in unacknowledged mode
# ==============================================================================================
def _cl_expired(o):
    return B(val(o.self._params.check_timer).expired)


def _cl_hit(o):
    return o.self._params.current_check_count + 1 >= rcfg(o.self).check_limit


def _cl_ok(o):
    return Or_(_ck_trivial(o), _ck_matches(o))


C("_check_limit_handling", arg_types=SELF, props=("C13",), result=None,
  requires=REQ_INV + DEFAULT + [
      ("in_check_limit_step", lambda o: And_(step_is(o.self, STEP.RECV_FILE_DATA_WITH_CHECK_LIMIT_HANDLING),
                                             ne(o.self.states.state, IDLE))),
      ("eof_seen", lambda o: Not_(isnone(o.self._params.fp.crc32))),
      ("not_cancelled", lambda o: ne(o.self._params.completion_disposition, CANCELED)),
      ("incomplete_so_far", lambda o: eq(_fpar(o.self).delivery_code, DeliveryCode.DATA_INCOMPLETE)),
  ],
  modifies=["self._params.finished_params.delivery_code", "self._params.finished_params.condition_code",
            "self._params.current_check_count", "self._params.check_timer.expired", "self.states.step",
            "self._params.completion_disposition"],
  ensures=[
      Clause("C13.not_expired_is_noop", lambda o, n, r: Implies_(Not_(_cl_expired(o)), And_(
          len(n.trace) == 0, unchanged(o, n, "_params.current_check_count", "states.step"))), ("C13",)),
      Clause("C13.late_data_completes", lambda o, n, r: Implies_(And_(_cl_expired(o), _cl_ok(o)), And_(
          step_is(n.self, STEP.TRANSFER_COMPLETION), eq(_fpar(n.self).delivery_code, DeliveryCode.DATA_COMPLETE),
          eq(_fpar(n.self).condition_code, CC.NO_ERROR), no_fault(n),
          eq(n.self._params.completion_disposition, COMPLETED))), ("C13",)),
      Clause("C13.limit_fault_exactly_at_limit", lambda o, n, r: Implies_(And_(_cl_expired(o), Not_(_cl_ok(o))), And_(
          Implies_(_cl_hit(o), And_(
              len(fault_cbs(n)) == 2 and And_(Eq_(fault_cbs(n)[1]["cond"], CC.CHECK_LIMIT_REACHED),
                                             fault_cbs(n)[1]["name"] == "notice_of_cancellation_cb"),
              step_is(n.self, STEP.TRANSFER_COMPLETION), eq(_fpar(n.self).delivery_code, DeliveryCode.DATA_INCOMPLETE),
              eq(_fpar(n.self).condition_code, CC.CHECK_LIMIT_REACHED), eq(n.self._params.completion_disposition, CANCELED))),
          Implies_(Not_(_cl_hit(o)), And_(
              len(fault_cbs(n)) == 1, n.self._params.current_check_count == o.self._params.current_check_count + 1,
              len(timer_resets(n)) == 1, step_is(n.self, STEP.RECV_FILE_DATA_WITH_CHECK_LIMIT_HANDLING),
              eq(_fpar(n.self).delivery_code, DeliveryCode.DATA_INCOMPLETE))))), ("C13", "C14")),
      Clause("C13.no_pdu_no_indication_here", lambda o, n, r: len(emitted(n)) == 0 and len(inds(n)) == 0, ("C13",)),
  ] + inv_clauses(("C13",)),
  modular=False)


# ==============================================================================================
# well-formed inbound PDUs
# ==============================================================================================
from stubs.cfdp import PDU_CLASSES  # noqa: E402
from spacepackets.cfdp.pdu import EofPdu, FileDataPdu, MetadataPdu  # noqa: E402
from spacepackets.cfdp import TransactionId, Direction, PduType, EntityIdTlv  # noqa: E402
from pyvc.values import blen, SBytes  # noqa: E402


def conf_wf(c):
    return And_(ubf_inv(c.source_entity_id), ubf_inv(c.dest_entity_id), ubf_inv(c.transaction_seq_num))


def pdu_wf(p):
    """class invariant of a PDU object produced by the library (constructor or unpack)"""
    if p is None:
        return True
    fs = [conf_wf(p.pdu_conf)]
    if p.cls is FileDataPdu:
        fs += [p.offset >= 0]
    elif p.cls is EofPdu:
        fs += [p.file_size >= 0, p.file_checksum.length() == 4]
    elif p.cls is MetadataPdu:
        fs += [p.file_size >= 0]
    elif p.cls is NakPdu:
        i = z3.Int("nk!i")
        L = p.segment_requests.items
        fs += [p.start_of_scope >= 0, p.end_of_scope >= 0,
               z3.ForAll([i], z3.Implies(z3.And(0 <= i, i < L.n), z3.And(L.a[i] >= 0, L.b[i] >= 0)))]
    elif p.cls is AckPdu:
        fs += [one_of(p.directive_code_of_acked_pdu, [DirectiveType.EOF_PDU, DirectiveType.FINISHED_PDU])]
    return And_(*fs)


ANY_PDU = T.OneOf(PDU_CLASSES, allow_none=True)


def id_bytes(u):
    from stubs.cfdp import ubf_bytes
    return SBytes(ubf_bytes(to_z3_int(u.value), to_z3_int(u.byte_len)))


def tid_eq(a, b):
    return And_(Eq_(a.source_id.value, b.source_id.value), Eq_(a.seq_num.value, b.seq_num.value))


# ==============================================================================================
# C12: cancel request at the receiver
# ==============================================================================================
def _cr_match(o):
    h = o.self
    return And_(ne(h.states.state, IDLE), Not_(isnone(h._params.transaction_id)),
                tid_eq(o.transaction_id, val(h._params.transaction_id)))


C("cancel_request", arg_types={**SELF, "transaction_id": T.Obj(TransactionId)}, props=("C12",), result=T.Bool,
  requires=REQ_INV,
  modifies=["self._params.completion_disposition", "self._params.finished_params.condition_code",
            "self._params.finished_params.fault_location", "self.states.step"],
  ensures=[
      Clause("C12.dest.returns_true_iff_active_id", lambda o, n, r: iff(r, _cr_match(o)), ("C12",)),
      Clause("C12.dest.cancel_effect", lambda o, n, r: Implies_(r, And_(
          eq(n.self._params.completion_disposition, CANCELED),
          eq(_fpar(n.self).condition_code, CC.CANCEL_REQUEST_RECEIVED),
          opt(_fpar(n.self).fault_location, lambda t: Eq_(t.entity_id, id_bytes(o.self.cfg.local_entity_id)), False),
          step_is(n.self, STEP.TRANSFER_COMPLETION))), ("C12",)),
      Clause("C12.dest.refused_changes_nothing", lambda o, n, r: Implies_(Not_(r), And_(
          unchanged(o, n, "states.step", "_params.completion_disposition", "_params.finished_params.condition_code"))), ("C12",)),
      Clause("C12.dest.silent", lambda o, n, r: len(n.trace) == 0, ("C12",)),
  ] + inv_clauses(("C12",)),
  raises=[RaiseClause("C10.unretrieved_truthful", D.UnretrievedPdusToBeSent, iff=True,
                      when=lambda o: And_(ne(o.self.states.state, IDLE), o.self._pdus_to_be_sent.length() > 0),
                      props=("C10", "C12"), modifies=[])],
  modular=False)


# ==============================================================================================
# notice of completion / finished PDU (C05 deletion, C12 disposition, C15 finished indication)
# ==============================================================================================
def _noc_deletes(o):
    h = o.self
    return And_(eq(h._params.completion_disposition, CANCELED), B(rcfg(h).disposition_on_cancellation),
                eq(_fpar(h).delivery_code, DeliveryCode.DATA_INCOMPLETE))


def _fin_ind_ok(o, n):
    """the Transaction-Finished indication: issued iff the switch is on; carries the transaction's id and the
    very finished_params object that the Finished PDU will carry"""
    sw = B(o.self.cfg.indication_cfg.transaction_finished_indication_required)
    es = inds(n, "transaction_finished_indication")
    if len(es) == 0:
        return Not_(sw)
    if len(es) != 1:
        return False
    par = es[0]["args"][0]
    tid = par.transaction_id
    return And_(sw, tid_eq(tid, val(o.self._params.transaction_id)),
                par.finished_params.oid == o.self._params.finished_params.oid)


NOC_MOD = ["self._params.finished_params.file_status"]

C("_notice_of_completion", arg_types=SELF, props=("C12", "C15", "C05"), result=None,
  requires=REQ_INV + [("busy", lambda o: ne(o.self.states.state, IDLE))],
  modifies=NOC_MOD,
  ensures=[
      Clause("C12.disposition_deletes_exactly_when_configured", lambda o, n, r: (
          (len(vfs_ops(n)) == 1 and vfs_ops(n)[0]["op"] == "delete_file" and And_(
              _noc_deletes(o), Eq_(vfs_ops(n)[0]["path"], o.self._params.fp.file_name),
              eq(_fpar(n.self).file_status, FileStatus.DISCARDED_DELIBERATELY)))
          if len(vfs_ops(n)) > 0 else And_(Not_(_noc_deletes(o)),
                                          Eq_(_fpar(n.self).file_status, _fpar(o.self).file_status))), ("C12", "C05")),
      Clause("C15.finished_indication_faithful", lambda o, n, r: _fin_ind_ok(o, n), ("C15",)),
      Clause("C15.no_other_indication_no_pdu", lambda o, n, r: len(inds(n)) == len(inds(n, "transaction_finished_indication"))
             and len(emitted(n)) == 0 and len(fault_cbs(n)) == 0, ("C15",)),
  ],
  modular=False)


def _needs_finished_pdu(o):
    h = o.self
    return Or_(And_(eq(mode(h), UNACK), B(h._params.closure_requested)), eq(mode(h), ACK))


C("_handle_transfer_completion", arg_types=SELF, props=("C12", "C15", "C02"), result=None,
  requires=REQ_INV + [("in_completion", lambda o: And_(ne(o.self.states.state, IDLE), step_is(o.self, STEP.TRANSFER_COMPLETION)))],
  modifies=NOC_MOD + ["self.states.step", "self.states.state", "self._params"],
  ensures=[
      Clause("C15.finished_indication_faithful", lambda o, n, r: _fin_ind_ok(o, n), ("C15", "C12")),
      Clause("C12.reported_condition_is_current", lambda o, n, r: (
          len(inds(n, "transaction_finished_indication")) == 0 or
          Eq_(inds(n, "transaction_finished_indication")[0]["args"][0].finished_params.condition_code,
              _fpar(o.self).condition_code)), ("C12", "C14")),
      Clause("C02.next_step", lambda o, n, r: And_(
          Implies_(_needs_finished_pdu(o), And_(step_is(n.self, STEP.SENDING_FINISHED_PDU), n.self._params.oid == o.self._params.oid)),
          Implies_(Not_(_needs_finished_pdu(o)), And_(step_is(n.self, STEP.IDLE), eq(n.self.states.state, IDLE)))), ("C02", "C12")),
      Clause("C05.only_delete_of_dest", lambda o, n, r: all(
          e["op"] == "delete_file" for e in vfs_ops(n)) and And_(*[Eq_(e["path"], o.self._params.fp.file_name) for e in vfs_ops(n)]), ("C05",)),
  ] + inv_clauses(("C02",)),
  modular=False)


C("_prepare_finished_pdu", arg_types=SELF, props=("C15", "C10"), result=None,
  requires=REQ_INV + [("busy", lambda o: ne(o.self.states.state, IDLE)),
                      ("resend_after_timer_reset", lambda o: Implies_(step_is(o.self, STEP.WAITING_FOR_FINISHED_ACK), opt(
                          o.self._params.positive_ack_params.ack_timer, lambda t: Not_(B(t.expired)), True)))],
  modifies=["self._pdus_to_be_sent", "self.states._num_packets_ready"],
  ensures=[
      Clause("C15.finished_pdu_carries_live_params", lambda o, n, r: _fin_pdu_is_live(n) and len(emitted(n)) == 1 and And_(
          eq(emitted(n)[0].pdu_conf.direction, Direction.TOWARDS_SENDER),
          Eq_(emitted(n)[0].pdu_conf.trans_mode, mode(o.self)),
          Eq_(emitted(n)[0].pdu_conf.transaction_seq_num.value, o.self._params.pdu_conf.transaction_seq_num.value),
          Eq_(emitted(n)[0].pdu_conf.source_entity_id.value, o.self._params.pdu_conf.source_entity_id.value)), ("C15", "C12")),
  ] + inv_clauses(("C10",)),
  raises=[RaiseClause("C10.unretrieved_truthful", D.UnretrievedPdusToBeSent, iff=True,
                      when=lambda o: o.self._pdus_to_be_sent.length() > 0, props=("C10",), modifies=[])],
  modular=False)


# ==============================================================================================
# EOF handling (C12 EOF(cancel), C13 deferral, C01 EOF fields, C15 EOF-Recv)
# ==============================================================================================
def _eof_ind_ok(o, n):
    sw = B(o.self.cfg.indication_cfg.eof_recv_indication_required)
    es = inds(n, "eof_recv_indication")
    if len(es) == 0:
        return Not_(sw)
    if len(es) != 1:
        return False
    return And_(sw, tid_eq(es[0]["args"][0], val(o.self._params.transaction_id)))


def _timer_for_receiving_entity(t):
    """the check timer was requested from the provider for the RECEIVING entity"""
    from cfdppy.mib import EntityType
    return t.f.get("_for_entity") is EntityType.RECEIVING


def _eof_is_cancel(o):
    return ne(o.eof_pdu.condition_code, CC.NO_ERROR)


def _eof_ack_emitted(o, n):
    ps = emitted(n)
    if len(ps) != 1 or ps[0].cls is not AckPdu:
        return False
    a = ps[0]
    return And_(eq(a.directive_code_of_acked_pdu, DirectiveType.EOF_PDU), eq(a.pdu_conf.direction, Direction.TOWARDS_SENDER),
                Eq_(a.condition_code_of_acked_pdu, _fpar(n.self).condition_code),
                Eq_(a.pdu_conf.transaction_seq_num.value, o.self._params.pdu_conf.transaction_seq_num.value))


def _ck_matches_after_eof(o):
    """checksum of the destination file over the progress known when the EOF is processed == EOF checksum"""
    p = o.self._params
    return Eq_(fs_checksum(FS0, to_z3_int(p.checksum_type), p.fp.file_name.p, to_z3_int(p.fp.progress)), o.eof_pdu.file_checksum.b)


EOF_MOD = ["self._params.fp.crc32", "self._params.fp.file_size_eof", "self._params.fp.progress",
           "self._params.completion_disposition", "self._params.finished_params.condition_code",
           "self._params.finished_params.fault_location", "self._params.finished_params.delivery_code",
           "self.states.step", "self._pdus_to_be_sent", "self.states._num_packets_ready",
           "self._params.acked_params.lost_seg_tracker.lost_segments", "self._params.check_timer",
           "self._params.current_check_count"]

C("_handle_eof_pdu", arg_types={**SELF, "eof_pdu": T.Obj(EofPdu)}, props=("C12", "C13", "C01"), result=T.Opt(T.Bool),
  requires=REQ_INV + [("DestInvTracker", lambda o: tracker_inv(o.self))] + DEFAULT + [
      # (an EOF (cancel) is also handed over while the Metadata PDU is still missing: its cancel response needs no metadata)
      ("receiving", lambda o: And_(ne(o.self.states.state, IDLE), Or_(
          step_is(o.self, STEP.RECEIVING_FILE_DATA, STEP.RECV_FILE_DATA_WITH_CHECK_LIMIT_HANDLING),
          And_(step_is(o.self, STEP.WAITING_FOR_METADATA), _eof_is_cancel(o), eq(mode(o.self), ACK))))),
      # acknowledged mode: the furthest segment end never exceeds the progress (no write was dropped after a
      # successful one, see DESIGN: environment assumption on the filestore), and no EOF was seen before
      ("acked_extent", lambda o: Implies_(And_(eq(mode(o.self), ACK), Not_(step_is(o.self, STEP.WAITING_FOR_METADATA))), And_(
          o.self._params.acked_params.last_end_offset <= o.self._params.fp.progress, isnone(o.self._params.fp.file_size_eof)))),
      ("pdu_wf", lambda o: pdu_wf(o.eof_pdu)),
      ("not_cancelled", lambda o: ne(o.self._params.completion_disposition, CANCELED)),
      ("file_params", lambda o: Not_(B(o.self._params.fp.metadata_only))),
      ("incomplete_so_far", lambda o: eq(_fpar(o.self).delivery_code, DeliveryCode.DATA_INCOMPLETE)),
  ],
  modifies=EOF_MOD,
  ensures=[
      Clause("C01.eof_fields_stored", lambda o, n, r: And_(
          opt(n.self._params.fp.crc32, lambda c: Eq_(c, o.eof_pdu.file_checksum), False),
          opt(n.self._params.fp.file_size_eof, lambda s: Eq_(s, o.eof_pdu.file_size), False)), ("C01",)),
      Clause("C15.eof_recv_indication", lambda o, n, r: _eof_ind_ok(o, n), ("C15",)),
      Clause("C12.eof_cancel_finishes_with_eof_condition", lambda o, n, r: Implies_(_eof_is_cancel(o), And_(
          eq(n.self._params.completion_disposition, CANCELED),
          Eq_(_fpar(n.self).condition_code, o.eof_pdu.condition_code),
          opt(_fpar(n.self).fault_location, lambda t: Eq_(t.entity_id, id_bytes(rcfg(o.self).entity_id)), False),
          eq(_fpar(n.self).delivery_code, DeliveryCode.DATA_INCOMPLETE),
          Implies_(eq(mode(o.self), UNACK), And_(step_is(n.self, STEP.TRANSFER_COMPLETION), len(emitted(n)) == 0)),
          Implies_(eq(mode(o.self), ACK), And_(step_is(n.self, STEP.SENDING_EOF_ACK_PDU), _eof_ack_emitted(o, n))),
          no_fault(n))), ("C12",)),
      Clause("C13.eof_before_data_defers_completion", lambda o, n, r: Implies_(And_(
          Not_(_eof_is_cancel(o)), eq(mode(o.self), UNACK), o.self._params.fp.progress <= o.eof_pdu.file_size,
          ne(o.self._params.checksum_type, ChecksumType.NULL_CHECKSUM), Not_(_ck_matches_after_eof(o))), And_(
          step_is(n.self, STEP.RECV_FILE_DATA_WITH_CHECK_LIMIT_HANDLING), n.self._params.current_check_count == 0,
          opt(n.self._params.check_timer, lambda t: And_(Not_(B(t.expired)), _timer_for_receiving_entity(t)), False),
          # C14: the checksum failure is declared ONCE (finding F23, repaired: it used to be declared by _checksum_verify and
          # again by _handle_no_error_eof)
          declared(n, CC.FILE_CHECKSUM_FAILURE, "ignore_cb"),
          len(inds(n, "transaction_finished_indication")) == 0, len(emitted(n)) == 0,
          eq(_fpar(n.self).delivery_code, DeliveryCode.DATA_INCOMPLETE))), ("C13", "C14")),
      Clause("C02.complete_eof_unacked", lambda o, n, r: Implies_(And_(
          Not_(_eof_is_cancel(o)), eq(mode(o.self), UNACK), o.self._params.fp.progress <= o.eof_pdu.file_size,
          Or_(eq(o.self._params.checksum_type, ChecksumType.NULL_CHECKSUM), _ck_matches_after_eof(o))), And_(
          step_is(n.self, STEP.TRANSFER_COMPLETION), eq(_fpar(n.self).delivery_code, DeliveryCode.DATA_COMPLETE),
          eq(_fpar(n.self).condition_code, CC.NO_ERROR), no_fault(n), len(emitted(n)) == 0)), ("C02", "C01")),
      Clause("C02.eof_acked_mode_is_acknowledged", lambda o, n, r: Implies_(And_(
          Not_(_eof_is_cancel(o)), eq(mode(o.self), ACK), o.self._params.fp.progress <= o.eof_pdu.file_size), And_(
          step_is(n.self, STEP.SENDING_EOF_ACK_PDU), _eof_ack_emitted(o, n), no_fault(n),
          eq(_fpar(n.self).delivery_code, DeliveryCode.DATA_INCOMPLETE))), ("C02", "C03")),
      Clause("C14.file_size_error_on_overrun", lambda o, n, r: Implies_(And_(
          Not_(_eof_is_cancel(o)), o.self._params.fp.progress > o.eof_pdu.file_size), And_(
          len(fault_cbs(n)) >= 1 and Eq_(fault_cbs(n)[0]["cond"], CC.FILE_SIZE_ERROR),
          eq(n.self._params.completion_disposition, CANCELED),
          eq(_fpar(n.self).condition_code, CC.FILE_SIZE_ERROR))), ("C14", "C01")),
      Clause("C05.eof_does_not_touch_files", lambda o, n, r: all(e["op"] == "calculate_checksum" for e in vfs_ops(n)), ("C05",)),
      # C06: the tail gap between the last byte received and the EOF file size becomes a lost range
      Clause("C06.tail_gap_is_recorded", lambda o, n, r: Implies_(And_(Not_(_eof_is_cancel(o)), eq(mode(o.self), ACK)), z3.ForAll(
          [TR.X], TR.view(trk(n.self), TR.X) == z3.Or(TR.view(trk(o.self), TR.X), z3.And(
              o.self._params.fp.progress <= TR.X, TR.X < o.eof_pdu.file_size)))), ("C06",)),
      Clause("inv.tracker", lambda o, n, r: tracker_inv(n.self), ("C06",)),
      Clause("D16.eof_size_covers_all_segments", lambda o, n, r: Implies_(And_(eq(mode(o.self), ACK), Not_(_eof_is_cancel(o)),
                                                                                step_is(n.self, STEP.SENDING_EOF_ACK_PDU)),
             o.eof_pdu.file_size >= n.self._params.acked_params.last_end_offset), ("C06",)),
  ] + inv_clauses(("C12",)),
  modular=False)


# ==============================================================================================
# C05 / C15 / C02: Metadata handling, destination path resolution, file creation
# ==============================================================================================
from stubs.cfdp import fs_is_dir, fs_exists, path_join, path_name, path_of_str, EMPTY_PATH, cfg_known  # noqa: E402
from pyvc.values import SPath, SStr  # noqa: E402


def _resolved_path(o):
    """the property's destination path: the given name, or <dir>/<source base name> when it names a directory"""
    p = o.self._params.fp.file_name.p
    return z3.If(fs_is_dir(FS0, p), path_join(p, o.source_base_name.s), p)


C("_init_vfs_handling", arg_types={**SELF, "source_base_name": T.Str}, props=("C05", "C02", "C14"), result=None,
  requires=REQ_INV + [("busy", _busy_noarg := (lambda o: And_(ne(o.self.states.state, IDLE), Not_(isnone(o.self._params.transaction_id)))))],
  modifies=["self._params.fp.file_name", "self._params.finished_params.file_status", "self.states.step", "self.states.state",
            "self._params.finished_params.condition_code", "self._params.completion_disposition", "self._params"],
  ensures=[
      # no rejection: the resolved file exists and is empty afterwards: truncated if it existed, created otherwise;
      # nothing else in the filestore is touched
      Clause("C05.create_or_truncate_resolved_path", lambda o, n, r: (
          (lambda ops, muts, rej: (
              And_(Eq_(n.self._params.fp.file_name.p, _resolved_path(o)),
                   len(muts) == 1 and And_(
                       Eq_(muts[0]["path"].p, _resolved_path(o)),
                       (fs_exists(FS0, _resolved_path(o)) if muts[0]["op"] == "truncate_file" else Not_(fs_exists(FS0, _resolved_path(o)))),
                       eq(_fpar(n.self).file_status, FileStatus.FILE_RETAINED)))
              if not rej else len(muts) == 0))
          ([e for e in vfs_ops(n)], [e for e in vfs_ops(n) if e["op"] in ("truncate_file", "create_file", "write_data", "delete_file")],
           [e for e in n.trace if e["kind"] == "vfs_rejected"])), ("C05", "C02")),
      Clause("C05.only_queries_and_one_mutation", lambda o, n, r: all(
          e["op"] in ("is_directory", "file_exists", "truncate_file", "create_file") for e in vfs_ops(n)), ("C05",)),
      Clause("C14.filestore_rejection_declared", lambda o, n, r: (
          (lambda rej: (len(fault_cbs(n)) == 1 and Eq_(fault_cbs(n)[0]["cond"], CC.FILESTORE_REJECTION)) if rej else no_fault(n))
          ([e for e in n.trace if e["kind"] == "vfs_rejected" and e["exc"] is PermissionError])), ("C14", "C01")),
      Clause("silent", lambda o, n, r: len(emitted(n)) == 0 and len(inds(n)) == 0, ("C05",)),
  ],
  raises=[RaiseClause("vfs.truncate_race", FileNotFoundError, props=("C10",), modifies=["self._params.fp.file_name"])],
  effects={"vfs", "fault_cb"}, modular=False)


# ==============================================================================================
# C11: fresh per-transaction state (constructor, reset, transaction start)
# ==============================================================================================
def fresh_params(p, old_p=None):
    """every per-transaction field has its constructor value; the parameter block and its tracker are new objects"""
    fp, ap, pa, fin = p.fp, p.acked_params, p.positive_ack_params, p.finished_params
    d = ap.lost_seg_tracker.lost_segments.d
    fs = [
        isnone(p.transaction_id), isnone(p.remote_cfg), isnone(p.check_timer), p.current_check_count == 0,
        Not_(B(p.closure_requested)), eq(p.checksum_type, ChecksumType.NULL_CHECKSUM),
        eq(fin.condition_code, CC.NO_ERROR), eq(fin.delivery_code, DeliveryCode.DATA_INCOMPLETE),
        eq(fin.file_status, FileStatus.FILE_STATUS_UNREPORTED), isnone(fin.fault_location),
        eq(p.completion_disposition, COMPLETED),
        fp.progress == 0, Not_(B(fp.metadata_only)), isnone(fp.file_size), isnone(fp.file_size_eof),
        Eq_(fp.file_name.p, EMPTY_PATH),
        d.n == 0, z3.ForAll([TR.X], z3.Not(TR.view(d, TR.X))),
        Not_(B(ap.metadata_missing)), ap.last_start_offset == 0, ap.last_end_offset == 0,
        Not_(B(ap.deferred_lost_segment_detection_active)), isnone(ap.procedure_timer), ap.nak_activity_counter == 0,
        isnone(pa.ack_timer), pa.ack_counter == 0,
    ]
    if old_p is not None:
        fs += [p.oid != old_p.oid, ap.lost_seg_tracker.oid != old_p.acked_params.lost_seg_tracker.oid,
               fin.oid != old_p.finished_params.oid]
    return And_(*fs)


C("_reset_internal", arg_types={**SELF, "clear_packet_queue": T.Bool}, props=("C11",), result=None,
  requires=[], modifies=["self._params", "self.states.state", "self.states.step", "self._pdus_to_be_sent"],
  ensures=[
      Clause("C11.dest.reset_gives_fresh_parameter_block", lambda o, n, r: And_(
          eq(n.self.states.state, IDLE), eq(n.self.states.step, STEP.IDLE), fresh_params(n.self._params, o.self._params)), ("C11",)),
      Clause("C11.dest.queue_cleared_iff_asked", lambda o, n, r: And_(
          Implies_(B(o.clear_packet_queue), n.self._pdus_to_be_sent.length() == 0),
          Implies_(Not_(B(o.clear_packet_queue)), n.self._pdus_to_be_sent.length() == o.self._pdus_to_be_sent.length())), ("C11",)),
      Clause("C11.dest.fresh_tracker_is_not_shared", lambda o, n, r: not any(
          isinstance(v, SObj) and v is n.self._params.acked_params.lost_seg_tracker for v in n.interp.shared_objs.values()), ("C11",)),
  ],
  effects=set(), modular=False)

# the public reset (also the end of an abandoned transaction): a fresh idle handler whose ready counter still matches its queue
C("reset", arg_types=SELF, props=("C11", "C10"), result=None,
  requires=REQ_INV, modifies=["self._params", "self.states.state", "self.states.step", "self._pdus_to_be_sent"],
  ensures=[
      Clause("C11.dest.public_reset_gives_a_fresh_idle_handler", lambda o, n, r: And_(
          eq(n.self.states.state, IDLE), eq(n.self.states.step, STEP.IDLE), fresh_params(n.self._params, o.self._params),
          to_z3_int(n.self.states._num_packets_ready) == n.self._pdus_to_be_sent.length()), ("C11", "C10")),
  ] + inv_clauses(("C11", "C10")),
  effects=set(), modular=False)


# the constructor establishes the invariant and the fresh state (so that "for every history" starts from a proved base case)
from cfdppy.mib import LocalEntityCfg as _LEC, RemoteEntityCfgTable as _RCT, CheckTimerProvider as _CTP  # noqa: E402
from cfdppy.user import CfdpUserBase as _UB  # noqa: E402

C("__init__", arg_types={**SELF, "cfg": T.Obj(_LEC), "user": T.Obj(_UB), "remote_cfg_table": T.Obj(_RCT),
                         "check_timer_provider": T.Obj(_CTP)}, props=("C11", "C10"), result=None,
  requires=[("valid_local_cfg", lambda o: And_(table_inv(o.cfg.default_fault_handlers._handler_dict.d), ubf_inv(o.cfg.local_entity_id)))],
  modifies=["self.cfg", "self.remote_cfg_table", "self.states", "self.user", "self.check_timer_provider", "self._params",
            "self._pdus_to_be_sent"],
  ensures=[
      Clause("C11.dest.constructor_gives_idle_fresh_handler", lambda o, n, r: And_(
          eq(n.self.states.state, IDLE), eq(n.self.states.step, STEP.IDLE), fresh_params(n.self._params),
          n.self._pdus_to_be_sent.length() == 0, to_z3_int(n.self.states._num_packets_ready) == 0), ("C11",)),
      Clause("C11.dest.constructor_keeps_its_arguments", lambda o, n, r: (
          n.self.cfg.oid == o.cfg.oid and n.self.user.oid == o.user.oid and n.self.remote_cfg_table.oid == o.remote_cfg_table.oid
          and n.self.check_timer_provider.oid == o.check_timer_provider.oid), ("C11",)),
      Clause("C11.dest.constructor_tracker_is_not_shared", lambda o, n, r: not any(
          isinstance(v, SObj) and (v is n.self._params.acked_params.lost_seg_tracker or v is n.self._params
                                   or v is n.self.states) for v in n.interp.shared_objs.values()), ("C11",)),
  ] + inv_clauses(("C11", "C10")),
  effects=set(), modular=False)


C("_reset_nak_activity_parameters", arg_types=SELF, props=("C04",), result=None,
  requires=REQ_INV + [("timer", lambda o: Not_(isnone(o.self._params.acked_params.procedure_timer)))],
  modifies=["self._params.acked_params.nak_activity_counter", "self._params.acked_params.procedure_timer.expired"],
  ensures=[Clause("C04.nak.progress_resets_count_and_timer", lambda o, n, r: And_(
      n.self._params.acked_params.nak_activity_counter == 0,
      opt(n.self._params.acked_params.procedure_timer, lambda t: Not_(B(t.expired)), False)), ("C04",)),
      Clause("C04.nak.timer_restarted_once", lambda o, n, r: len(timer_resets(n)) == 1, ("C04",))],
  effects={"timer"}, modular=False)


# ==============================================================================================
# C05 / C15 / C01: Metadata PDU handling
# ==============================================================================================
from spacepackets.cfdp import TlvType  # noqa: E402
from stubs.world import WORLD as _W  # noqa: E402

_cnt_memo = {}


def mtu_count(L):
    """cnt(i) = number of MESSAGE_TO_USER options among the first i options (recursive definition)"""
    key = (L.a.get_id(),)
    if key not in _cnt_memo:
        f = z3.RecFunction(f"mtu_count{len(_cnt_memo)}", z3.IntSort(), z3.IntSort())
        i = z3.Int("mc!i")
        z3.RecAddDefinition(f, [i], z3.If(i <= 0, 0, f(i - 1) + z3.If(L.a[i - 1] == int(TlvType.MESSAGE_TO_USER), 1, 0)))
        _cnt_memo[key] = (f, L)
    return _cnt_memo[key][0]


def _md_options(o):
    opt_ = o.metadata_pdu.f.get("_options_tlv")
    return opt_


def _is_filtered(L, R, upto):
    """R (list of (kind, identity) pairs) holds exactly the MESSAGE_TO_USER options among L[0:upto), in order"""
    cnt = mtu_count(L)
    q = z3.Int("mf!q")
    return z3.And(R.n == cnt(upto), z3.ForAll([q], z3.Implies(
        z3.And(0 <= q, q < upto, L.a[q] == int(TlvType.MESSAGE_TO_USER)),
        z3.And(0 <= cnt(q), cnt(q) < cnt(upto), R.b[cnt(q)] == L.b[q], R.a[cnt(q)] == _W.msg_kind_of_value(L.b[q])))))


def _md_loop_inv(I, pre, env, idx, n):
    L = val(pre.metadata_pdu.f["_options_tlv"]).items if "_options_tlv" in pre.metadata_pdu.f else val(env.options).items
    R = TR._as_pl(env.msgs_to_user_list)
    cnt = mtu_count(L)
    q = z3.Int("ml!q")
    return [
        ("filtered_so_far", _is_filtered(L, R, idx)),
        ("count_monotone", z3.ForAll([q], z3.Implies(z3.And(0 <= q, q < idx), z3.And(cnt(q) <= cnt(q + 1), cnt(q + 1) <= cnt(idx))))),
    ]


def _md_ind_ok(o, n):
    es = inds(n, "metadata_recv_indication")
    if len(es) != 1:
        return False
    par = es[0]["args"][0]
    m = o.metadata_pdu
    if par.transaction_id is None:
        return False
    tid_ok = tid_eq(par.transaction_id, val(o.self._params.transaction_id))
    names = And_(
        (par.source_file_name is None) == (m.source_file_name is None) if not isinstance(m.source_file_name, SOpt) else True,
        Eq_(par.source_file_name, m.source_file_name), Eq_(par.dest_file_name, m.dest_file_name),
        Eq_(par.source_id.value, m.pdu_conf.source_entity_id.value))
    size = Eq_(par.file_size, None) if m.source_file_name is None else Eq_(par.file_size, m.file_size)
    optv = m.f.get("_options_tlv")
    if optv is None:
        msgs = True
    else:
        ol = val(optv)
        if par.msgs_to_user is None:
            msgs = isnone(optv)
        else:
            msgs = And_(Not_(isnone(optv)), _is_filtered(ol.items, TR._as_pl(par.msgs_to_user), ol.items.n))
    return And_(tid_ok, names, size, msgs)


MD_MOD = ["self._params.checksum_type", "self._params.closure_requested", "self._params.acked_params.metadata_missing",
          "self._params.fp.metadata_only", "self._params.finished_params.delivery_code", "self._params.fp.file_name",
          "self._params.fp.file_size", "self.states.step", "self.states.state", "self._params.finished_params.file_status",
          "self._params.finished_params.condition_code", "self._params.completion_disposition", "self._params"]


def _md_pre(o):
    h = o.self
    return And_(ne(h.states.state, IDLE), Not_(isnone(h._params.transaction_id)), Not_(isnone(h._params.remote_cfg)),
                pdu_wf(o.metadata_pdu), step_is(h, STEP.IDLE, STEP.WAITING_FOR_METADATA),
                # names come together (the library encodes a metadata-only PDU with both names empty)
                (o.metadata_pdu.dest_file_name is None) == (o.metadata_pdu.source_file_name is None))


def _md_setup(interp, roots):
    m = roots["metadata_pdu"]
    for k in ("source_file_name", "dest_file_name"):
        m.f[k] = interp.force(m.f[k])


C("_handle_metadata_packet", arg_types={**SELF, "metadata_pdu": T.Obj(MetadataPdu)}, props=("C05", "C15", "C01"), result=None,
  setup=_md_setup,
  requires=[("DestInvNoD1", lambda o: And_(*[f for l, f in dest_inv(o.self) if not l.startswith("D1.idle_iff")]))] + [("metadata_expected", _md_pre)],
  modifies=MD_MOD,
  ensures=[
      Clause("C01.checksum_type_and_closure_from_metadata", lambda o, n, r: Implies_(ne(n.self.states.state, IDLE), And_(
          Eq_(n.self._params.checksum_type, o.metadata_pdu.checksum_type),
          iff(B(n.self._params.closure_requested), B(o.metadata_pdu.closure_requested)),
          Not_(B(n.self._params.acked_params.metadata_missing)),
          opt(n.self._params.fp.file_size, lambda s: Eq_(s, o.metadata_pdu.file_size), False))), ("C01", "C05")),
      Clause("C05.destination_path_from_metadata", lambda o, n, r: Implies_(ne(n.self.states.state, IDLE), (
          And_(B(n.self._params.fp.metadata_only), len(vfs_ops(n)) == 0, step_is(n.self, STEP.TRANSFER_COMPLETION),
               eq(_fpar(n.self).delivery_code, DeliveryCode.DATA_COMPLETE))
          if o.metadata_pdu.dest_file_name is None else
          And_(Not_(B(n.self._params.fp.metadata_only)),
               Eq_(n.self._params.fp.file_name.p, z3.If(
                   fs_is_dir(FS0, path_of_str(o.metadata_pdu.dest_file_name.s)),
                   path_join(path_of_str(o.metadata_pdu.dest_file_name.s), path_name(path_of_str(o.metadata_pdu.source_file_name.s))),
                   path_of_str(o.metadata_pdu.dest_file_name.s))),
               all(e["path"] is not None for e in vfs_ops(n)) and And_(*[
                   Or_(Eq_(e["path"].p, path_of_str(o.metadata_pdu.dest_file_name.s)), Eq_(e["path"], n.self._params.fp.file_name))
                   for e in vfs_ops(n)]),
               step_is(n.self, STEP.RECEIVING_FILE_DATA, STEP.TRANSFER_COMPLETION)))), ("C05", "C02")),
      Clause("C15.metadata_recv_indication_faithful", lambda o, n, r: Implies_(ne(n.self.states.state, IDLE), _md_ind_ok(o, n)), ("C15",)),
      Clause("C15.no_other_output", lambda o, n, r: len(emitted(n)) == 0 and len(inds(n)) <= 1, ("C15",)),
      Clause("C14.no_indication_without_transaction_id", lambda o, n, r: all(
          getattr(e["args"][0], "transaction_id", e["args"][0]) is not None for e in inds(n)), ("C14",)),
  ],
  raises=[RaiseClause("vfs.truncate_race", FileNotFoundError, props=("C10",), modifies=MD_MOD)],
  loops={0: LoopSpec(_md_loop_inv, modifies=[], props=("C15",), local_types={"msgs_to_user_list": T.PairList})},
  effects={"vfs", "user", "fault_cb"}, modular=False)


# ==============================================================================================
# C06 / C18 at the handler level: lost segment bookkeeping while file data arrives
# ==============================================================================================
def trk(h):
    return h._params.acked_params.lost_seg_tracker.lost_segments.d


def extent(h):
    """extent of the file known so far: end of the furthest segment seen, or the EOF file size if that is larger"""
    ap, fse = h._params.acked_params, h._params.fp.file_size_eof
    le = to_z3_int(ap.last_end_offset)
    if isinstance(fse, SOpt):
        return z3.If(z3.And(z3.Not(fse.isnone), to_z3_int(fse.val) > le), to_z3_int(fse.val), le)
    if fse is None:
        return le
    return z3.If(to_z3_int(fse) > le, to_z3_int(fse), le)


def tracker_inv(h):
    """D7: the tracker is well-formed and every tracked byte lies inside the extent known so far"""
    ap = h._params.acked_params
    d = trk(h)
    return z3.And(TR.tr_wf(d), z3.ForAll([TR.X], z3.Implies(TR.view(d, TR.X), z3.And(0 <= TR.X, TR.X < extent(h)))),
                  0 <= ap.last_start_offset, ap.last_start_offset <= ap.last_end_offset,
                  # D8: nothing is tracked in unacknowledged mode
                  z3.Implies(to_z3_bool(eq(mode(h), UNACK)), z3.And(d.n == 0, z3.ForAll([TR.X], z3.Not(TR.view(d, TR.X))))))


def segments_tracked_up_to_last_end(h):
    """while file data is being received the extent is the end of the furthest segment (no EOF yet, or the deferred
    procedure has moved last_end_offset to the EOF file size)"""
    return extent(h) == to_z3_int(h._params.acked_params.last_end_offset)


REQ_TRK = [("DestInvTracker", lambda o: tracker_inv(o.self))]
for _lbl in ("DestInvTracker",):
    pass


def _lsh_gap(o):
    return o.offset > o.self._params.acked_params.last_end_offset


def _lsh_in_order(o):
    return o.offset >= o.self._params.acked_params.last_end_offset


def _lsh_retransmitted(o):
    """the segment lies completely before the start of the most recent in-order segment"""
    ap = o.self._params.acked_params
    ls = z3.If(_lsh_in_order(o), o.offset, ap.last_start_offset)
    return And_(o.offset + o.data_len <= ls, o.data_len > 0)


def _seg_straddles(o):
    d = trk(o.self)
    k = z3.Int("ls!k")
    a, b = o.offset, o.offset + o.data_len
    return z3.Exists([k], z3.And(d.dom[k], k <= a, a < d.val[k], d.val[k] < b))


def _seg_clean(o):
    """the retransmitted segment lies within one tracked range or touches none (C18's removal precondition)"""
    d = trk(o.self)
    k = z3.Int("lc!k")
    a, b = o.offset, o.offset + o.data_len
    return z3.Or(z3.Exists([k], z3.And(d.dom[k], k <= a, b <= d.val[k])),
                 z3.ForAll([TR.X], z3.Implies(z3.And(a <= TR.X, TR.X < b), z3.Not(TR.view(d, TR.X)))))


def _one_nak(n, scope_end, reqs, h_old):
    ps = emitted(n)
    if len(ps) != 1 or ps[0].cls is not NakPdu:
        return False
    p = ps[0]
    items = p.segment_requests.items
    if not isinstance(items, list) or len(items) != len(reqs):
        return False
    return And_(Eq_(p.start_of_scope, 0), Eq_(p.end_of_scope, scope_end),
                *[And_(Eq_(x[0], r[0]), Eq_(x[1], r[1])) for x, r in zip(items, reqs)],
                eq(p.pdu_conf.direction, Direction.TOWARDS_SENDER),
                Eq_(p.pdu_conf.transaction_seq_num.value, h_old._params.pdu_conf.transaction_seq_num.value))


LSH_MOD = ["self._params.acked_params.lost_seg_tracker.lost_segments", "self._params.acked_params.last_start_offset",
           "self._params.acked_params.last_end_offset", "self._pdus_to_be_sent", "self.states._num_packets_ready"]

C("_lost_segment_handling", arg_types={**SELF, "offset": T.Int, "data_len": T.Int}, props=("C06", "C10"), result=None,
  requires=REQ_INV + REQ_TRK + [("busy", lambda o: And_(ne(o.self.states.state, IDLE), Not_(isnone(o.self._params.remote_cfg)))),
                                ("segment", lambda o: And_(o.offset >= 0, o.data_len >= 0)),
                                ("acked", lambda o: eq(mode(o.self), ACK)),
                                ("receiving_file_data", lambda o: segments_tracked_up_to_last_end(o.self))],
  modifies=LSH_MOD,
  ensures=[
      Clause("C06.gap_is_recorded_exactly", lambda o, n, r: Implies_(_lsh_gap(o), z3.ForAll([TR.X], TR.view(trk(n.self), TR.X) == z3.Or(
          TR.view(trk(o.self), TR.X), z3.And(o.self._params.acked_params.last_end_offset <= TR.X, TR.X < o.offset)))), ("C06", "C01", "C03")),
      Clause("C06.immediate_nak_requests_exactly_the_gap", lambda o, n, r: And_(
          Implies_(And_(_lsh_gap(o), B(rcfg(o.self).immediate_nak_mode)), _one_nak(
              n, o.offset + o.data_len, [(o.self._params.acked_params.last_end_offset, o.offset)], o.self)),
          Implies_(Not_(And_(_lsh_gap(o), B(rcfg(o.self).immediate_nak_mode))), len(emitted(n)) == 0)), ("C06",)),
      Clause("C06.extent_advances", lambda o, n, r: And_(
          Implies_(_lsh_in_order(o), And_(n.self._params.acked_params.last_start_offset == o.offset,
                                          n.self._params.acked_params.last_end_offset == o.offset + o.data_len)),
          Implies_(Not_(_lsh_in_order(o)), unchanged(o, n, "_params.acked_params.last_start_offset",
                                                     "_params.acked_params.last_end_offset"))), ("C06",)),
      Clause("C06.retransmitted_segment_is_removed_exactly", lambda o, n, r: Implies_(And_(Not_(_lsh_gap(o)), _lsh_retransmitted(o), _seg_clean(o)),
             z3.ForAll([TR.X], TR.view(trk(n.self), TR.X) == z3.And(TR.view(trk(o.self), TR.X), z3.Not(
                 z3.And(o.offset <= TR.X, TR.X < o.offset + o.data_len))))), ("C06",)),
      Clause("C06.straddling_segment_changes_nothing", lambda o, n, r: Implies_(And_(Not_(_lsh_gap(o)), _lsh_retransmitted(o), _seg_straddles(o)),
             z3.ForAll([TR.X], TR.view(trk(n.self), TR.X) == TR.view(trk(o.self), TR.X))), ("C06", "C10")),
      Clause("C06.otherwise_tracker_unchanged", lambda o, n, r: Implies_(And_(Not_(_lsh_gap(o)), Not_(_lsh_retransmitted(o))),
             z3.ForAll([TR.X], TR.view(trk(n.self), TR.X) == TR.view(trk(o.self), TR.X))), ("C06",)),
      Clause("inv.tracker", lambda o, n, r: tracker_inv(n.self), ("C06", "C10")),
      Clause("C06.segments_still_tracked_up_to_last_end", lambda o, n, r: segments_tracked_up_to_last_end(n.self), ("C06",)),
      Clause("queue.counter", lambda o, n, r: to_z3_int(n.self.states._num_packets_ready) == n.self._pdus_to_be_sent.length(), ("C06",)),
      Clause("C06.no_other_output", lambda o, n, r: len(inds(n)) == 0 and len(fault_cbs(n)) == 0 and len(vfs_ops(n)) == 0, ("C06",)),
  ],
  effects=set(), modular=True)


# ==============================================================================================
# C05 / C15 / C14 / C01: File Data PDU handling
# ==============================================================================================
from spacepackets.cfdp.pdu import FileDataPdu as _FD  # noqa: E402


def _fd_end(o):
    return o.file_data_pdu.offset + o.file_data_pdu.file_data.length()


def _fd_ind_ok(o, n):
    sw = B(o.self.cfg.indication_cfg.file_segment_recvd_indication_required)
    es = inds(n, "file_segment_recv_indication")
    if len(es) == 0:
        return Not_(sw)
    if len(es) != 1 or len(inds(n)) != 1:
        return False
    par = es[0]["args"][0]
    if par.transaction_id is None:
        return False
    return And_(sw, tid_eq(par.transaction_id, val(o.self._params.transaction_id)), Eq_(par.offset, o.file_data_pdu.offset),
                Eq_(par.length, o.file_data_pdu.file_data.length()))


def _writes(n):
    return [e for e in vfs_ops(n) if e["op"] in ("write_data", "truncate_file", "create_file", "delete_file")]


def _rejected(n):
    return [e for e in n.trace if e["kind"] == "vfs_rejected"]


def _rejected_or_assumed_not(n):
    """EA-1 (environment assumption, DESIGN section 5): where this function is summarised by its contract (the
    dispatcher), the filestore is assumed not to reject a write to the file it created for this transaction; the
    function itself is verified for both outcomes"""
    from pyvc.spec import TraceUnavailable
    try:
        return _rejected(n)
    except TraceUnavailable:
        return []


def _f5a_class(o):
    """acknowledged mode, immediate NAK: the PDU lies beyond the EOF file size and opens a gap"""
    h = o.self
    return And_(eq(mode(h), ACK), _fd_size_error(o), o.file_data_pdu.offset > h._params.acked_params.last_end_offset,
                opt(h._params.remote_cfg, lambda rc: B(rc.immediate_nak_mode), False))


def _fd_size_error(o):
    return opt(o.self._params.fp.file_size_eof, lambda s: _fd_end(o) > s, False)


FD_MOD = LSH_MOD + ["self._params.finished_params.file_status", "self._params.fp.progress", "self.states.step", "self.states.state",
                    "self._params.finished_params.condition_code", "self._params.completion_disposition", "self._params"]


def _fd_pre(o):
    h = o.self
    return And_(ne(h.states.state, IDLE), Not_(isnone(h._params.transaction_id)), Not_(isnone(h._params.remote_cfg)),
                step_is(h, STEP.RECEIVING_FILE_DATA, STEP.RECV_FILE_DATA_WITH_CHECK_LIMIT_HANDLING, STEP.WAITING_FOR_MISSING_DATA),
                pdu_wf(o.file_data_pdu))


C("_handle_fd_pdu", arg_types={**SELF, "file_data_pdu": T.Obj(_FD)}, props=("C05", "C15", "C14", "C01"), result=None,
  requires=REQ_INV + REQ_TRK + DEFAULT + [("receiving", _fd_pre),
                                          ("receiving_file_data", lambda o: Implies_(eq(mode(o.self), ACK), segments_tracked_up_to_last_end(o.self)))],
  modifies=FD_MOD,
  ensures=[
      # C05: exactly one write, of this PDU's data at this PDU's offset, to the resolved destination path; nothing else
      Clause("C05.one_write_at_offset_to_destination", lambda o, n, r: (
          (lambda ws, rej: (len(ws) == 1 and ws[0]["op"] == "write_data" and And_(
              Eq_(ws[0]["path"], o.self._params.fp.file_name), Eq_(ws[0]["data"], o.file_data_pdu.file_data),
              Eq_(ws[0]["offset"], o.file_data_pdu.offset))) if not rej else len(ws) == 0)(_writes(n), _rejected(n))), ("C05", "C16", "C01", "C02", "C03")),
      Clause("C05.no_other_filestore_access", lambda o, n, r: len(vfs_ops(n)) == len(_writes(n)), ("C05",)),
      Clause("C15.file_segment_recv_indication_faithful", lambda o, n, r: _fd_ind_ok(o, n), ("C15",)),
      Clause("C01.progress_covers_written_data", lambda o, n, r: (
          (lambda rej: Implies_(ne(n.self.states.state, IDLE), (
              And_(Implies_(Not_(_fd_size_error(o)), n.self._params.fp.progress == z3.If(
                  _fd_end(o) >= o.self._params.fp.progress, _fd_end(o), o.self._params.fp.progress)),
                   eq(_fpar(n.self).file_status, FileStatus.FILE_RETAINED))
              if not rej else Eq_(n.self._params.fp.progress, o.self._params.fp.progress))))(_rejected(n))), ("C01", "C05")),
      Clause("C14.file_size_error_declared", lambda o, n, r: (
          (lambda rej: True if rej else And_(
              Implies_(_fd_size_error(o), And_(declared(n, CC.FILE_SIZE_ERROR, "notice_of_cancellation_cb"),
                                               eq(n.self._params.completion_disposition, CANCELED),
                                               eq(_fpar(n.self).condition_code, CC.FILE_SIZE_ERROR),
                                               step_is(n.self, STEP.TRANSFER_COMPLETION))),
              Implies_(Not_(_fd_size_error(o)), no_fault(n))))(_rejected(n))), ("C14", "C01")),
      Clause("C14.rejected_first_write_declares_filestore_rejection", lambda o, n, r: (
          (lambda rej: True if not rej else And_(
              Implies_(ne(_fpar(o.self).file_status, FileStatus.FILE_RETAINED), And_(
                  declared(n, CC.FILESTORE_REJECTION, "notice_of_cancellation_cb"),
                  eq(_fpar(n.self).file_status, FileStatus.DISCARDED_FILESTORE_REJECTION),
                  eq(n.self._params.completion_disposition, CANCELED))),
              Implies_(eq(_fpar(o.self).file_status, FileStatus.FILE_RETAINED), no_fault(n))))(_rejected(n))), ("C14", "C01")),
      Clause("inv.step", lambda o, n, r: Implies_(ne(n.self.states.state, IDLE),
                                                  True if _rejected_or_assumed_not(n) else step_inv(n.self)), ("C10", "C03")),
      # F5a: in immediate NAK mode a File Data PDU beyond the EOF size that also opens a gap queues a NAK and moves to completion
      Clause("step.unchanged_or_completion", lambda o, n, r: Implies_(ne(n.self.states.state, IDLE), Or_(
          Eq_(n.self.states.step, o.self.states.step), step_is(n.self, STEP.TRANSFER_COMPLETION))), ("C05",)),
      Clause("C06.only_acked_mode_tracks_segments", lambda o, n, r: Implies_(eq(mode(o.self), UNACK), And_(
          len(emitted(n)) == 0, unchanged(o, n, "_params.acked_params.last_end_offset", "_params.acked_params.last_start_offset"))), ("C06",)),
  ] + inv_clauses(("C05",)),
  effects={"vfs", "user", "fault_cb"}, modular=True)


# ==============================================================================================
# C04 / C06: deferred lost segment procedure (NAK sequences after the EOF PDU)
# ==============================================================================================
from spacepackets.cfdp import LargeFileFlag, CrcFlag  # noqa: E402


def _ap(h):
    return h._params.acked_params


def _conf_hdr(c):
    return 4 + c.source_entity_id.byte_len + c.dest_entity_id.byte_len + c.transaction_seq_num.byte_len


def _w(c):
    """bytes per offset field"""
    return z3.If(to_z3_int(c.file_flag) == int(LargeFileFlag.LARGE), 8, 4)


def _nak_len(c, nreq):
    """encoded length of a NAK PDU with nreq segment requests (header, directive code, scope, requests, CRC)"""
    return _conf_hdr(c) + 1 + 2 * _w(c) + nreq * 2 * _w(c) + z3.If(to_z3_int(c.crc_flag) == int(CrcFlag.WITH_CRC), 2, 0)


def nak_cfg_valid(h):
    """F11 (degenerate configuration) excluded: at least one segment request fits into a NAK PDU"""
    c = h._params.pdu_conf
    return And_(conf_wf(c), opt(h._params.remote_cfg, lambda rc: rc.max_packet_len >= _nak_len(c, 1), False))


def _max_reqs(h):
    c = h._params.pdu_conf
    base = _conf_hdr(c) + 1 + z3.If(to_z3_int(c.crc_flag) == int(CrcFlag.WITH_CRC), 2, 0) + 2 * _w(c)
    return (rcfg(h).max_packet_len - base) / (2 * _w(c))


def _dl_nothing_missing(o):
    return And_(trk(o.self).n == 0, Not_(B(_ap(o.self).metadata_missing)))


def _dl_timer_state(o):
    """(first issuance, expired)"""
    t = _ap(o.self).procedure_timer
    return isnone(t), opt(t, lambda x: B(x.expired), False)


def _dl_limit_hit(o):
    return _ap(o.self).nak_activity_counter + 1 == rcfg(o.self).nak_timer_expiration_limit


def _dl_issues_naks(o):
    first, expired = _dl_timer_state(o)
    return And_(B(_ap(o.self).deferred_lost_segment_detection_active), Not_(_dl_nothing_missing(o)),
                Or_(first, And_(expired, Not_(_dl_limit_hit(o)))))


def _seq_at(h0, t):
    """t-th element of ([(0,0)] if metadata is missing) ++ tracked ranges in ascending order"""
    d = trk(h0)
    m0 = z3.If(to_z3_bool(B(_ap(h0).metadata_missing)), 1, 0)
    k = d.keys[t - m0]
    return z3.If(t < m0, 0, k), z3.If(t < m0, 0, d.val[k])


def _dl_loop_inv(I, pre, env, idx, n):
    h0 = pre.self
    R = TR._as_pl(env.next_segment_reqs)
    m0 = z3.If(to_z3_bool(B(_ap(h0).metadata_missing)), 1, 0)
    j = z3.Int("dl!j")
    first = m0 + idx - R.n
    sa = lambda t: _seq_at(h0, t)  # noqa: E731
    return [
        ("pending_at_most_max", And_(R.n >= 0, R.n <= env.max_segments_in_one_pdu, first >= 0)),
        ("pending_is_next_chunk_of_the_sequence", z3.ForAll([j], z3.Implies(z3.And(0 <= j, j < R.n), z3.And(
            R.a[j] == sa(first + j)[0], R.b[j] == sa(first + j)[1])))),
        ("tracker_unchanged", TR.same_map(trk(env.self), trk(h0)) if trk(env.self) is not trk(h0) else True),
        ("queue_counter", And_(to_z3_int(env.self.states._num_packets_ready) == env.self._pdus_to_be_sent.length())),
        ("direction", eq(env.self._params.pdu_conf.direction, Direction.TOWARDS_SENDER)),
    ]


def _nak_is(p, h0, reqs_pl, nreq):
    """NAK with scope (0, EOF file size) whose request list is the given pair list, and which fits the packet length"""
    if p.cls is not NakPdu:
        return False
    items = p.segment_requests.items
    c = h0._params.pdu_conf
    same = (items is reqs_pl) if not isinstance(items, list) else False
    if isinstance(items, list):
        same = And_(len(items) == 0 or True, *[And_(Eq_(x[0], reqs_pl.a[i]), Eq_(x[1], reqs_pl.b[i])) for i, x in enumerate(items)],
                    Eq_(reqs_pl.n, len(items)))
    return And_(same, Eq_(p.start_of_scope, 0), Eq_(p.end_of_scope, val(h0._params.fp.file_size_eof)),
                nreq >= 1, _nak_len(c, nreq) <= rcfg(h0).max_packet_len,
                eq(p.pdu_conf.direction, Direction.TOWARDS_SENDER),
                Eq_(p.pdu_conf.transaction_seq_num.value, c.transaction_seq_num.value))


def _dl_body_post(I, pre, head, after, events, idx):
    h0 = pre.self
    pd = [e["pdu"] for e in events if e["kind"] == "pdu"]
    if [e for e in events if e["kind"] in ("ind", "fault_cb", "vfs")]:
        return [("only_nak_pdus", False)]
    Rh, Ra = TR._as_pl(head.next_segment_reqs), TR._as_pl(after.next_segment_reqs)
    item = _seq_at(h0, z3.If(to_z3_bool(B(_ap(h0).metadata_missing)), 1, 0) + idx)
    if len(pd) == 0:
        return [("appended", And_(Rh.n < head.max_segments_in_one_pdu, Ra.n == Rh.n + 1))]
    if len(pd) != 1:
        return [("at_most_one_nak_per_iteration", False)]
    return [
        ("full_list_is_flushed_as_one_nak", And_(Rh.n >= head.max_segments_in_one_pdu, _nak_is(pd[0], h0, Rh, Rh.n))),
        ("then_restarts_with_current_range", And_(Ra.n == 1, Ra.a[0] == item[0], Ra.b[0] == item[1])),
    ]


DL_MOD = ["self._pdus_to_be_sent", "self.states._num_packets_ready",
          "self._params.acked_params.procedure_timer", "self._params.acked_params.procedure_timer.expired",
          "self._params.acked_params.nak_activity_counter", "self._params.acked_params.deferred_lost_segment_detection_active",
          "self.states.step", "self.states.state", "self._params.finished_params.delivery_code",
          "self._params.finished_params.condition_code", "self._params.completion_disposition", "self._params"]


def _dl_pre(o):
    h = o.self
    return Implies_(B(_ap(h).deferred_lost_segment_detection_active), And_(
        ne(h.states.state, IDLE), Not_(isnone(h._params.transaction_id)), Not_(isnone(h._params.remote_cfg)),
        nak_cfg_valid(h), step_is(h, STEP.WAITING_FOR_METADATA, STEP.WAITING_FOR_MISSING_DATA, STEP.TRANSFER_COMPLETION,
                                  STEP.SENDING_EOF_ACK_PDU),
        Or_(_ck_trivial(o), Not_(isnone(h._params.fp.crc32)))))


def _final_nak_ok(o, n):
    """after the loop: the remainder (if any) is flushed as one more NAK"""
    ps = emitted(n)
    return ps


C("_deferred_lost_segment_handling", arg_types=SELF, props=("C04", "C06"), result=None,
  requires=REQ_INV + DEFAULT + [
      ("DestInvTracker", lambda o: Implies_(ne(o.self.states.state, IDLE), tracker_inv(o.self))),
      ("DestStepInv", lambda o: Implies_(ne(o.self.states.state, IDLE), step_inv(o.self))),
      ("deferred_step", _dl_pre)],
  modifies=DL_MOD,
  cond_frames=[
      ("C04.nak.inactive_is_noop", lambda o: Not_(B(_ap(o.self).deferred_lost_segment_detection_active)), [], {"silent": True}),
      ("C04.nak.timer_running_is_noop", lambda o: And_(
          B(_ap(o.self).deferred_lost_segment_detection_active), Not_(_dl_nothing_missing(o)),
          Not_(_dl_timer_state(o)[0]), Not_(_dl_timer_state(o)[1])), [], {"silent": True}),
  ],
  ensures=[
      Clause("C06.nothing_missing_completes_without_nak", lambda o, n, r: Implies_(And_(
          B(_ap(o.self).deferred_lost_segment_detection_active), _dl_nothing_missing(o)), And_(
          len(emitted(n)) == 0, step_is(n.self, STEP.TRANSFER_COMPLETION),
          Not_(B(_ap(n.self).deferred_lost_segment_detection_active)),
          # C12/C14 (F2): a cancelled transaction keeps its condition; otherwise the file is verified now
          Implies_(eq(o.self._params.completion_disposition, CANCELED), And_(
              len(vfs_ops(n)) == 0, unchanged(o, n, "_params.finished_params.condition_code", "_params.finished_params.delivery_code"))),
          Implies_(And_(ne(o.self._params.completion_disposition, CANCELED), Not_(_ck_trivial(o))),
                   len(vfs_ops(n, "calculate_checksum")) == 1))), ("C06", "C12", "C01")),
      Clause("C04.nak.limit_fault_exactly_at_limit", lambda o, n, r: Implies_(And_(
          B(_ap(o.self).deferred_lost_segment_detection_active), Not_(_dl_nothing_missing(o)), _dl_timer_state(o)[1]), And_(
          Implies_(_dl_limit_hit(o), And_(declared(n, CC.NAK_LIMIT_REACHED, "notice_of_cancellation_cb"), len(emitted(n)) == 0,
                                          step_is(n.self, STEP.TRANSFER_COMPLETION), eq(n.self._params.completion_disposition, CANCELED),
                                          eq(_fpar(n.self).condition_code, CC.NAK_LIMIT_REACHED))),
          Implies_(Not_(_dl_limit_hit(o)), And_(
              no_fault(n), _ap(n.self).nak_activity_counter == _ap(o.self).nak_activity_counter + 1,
              len(timer_resets(n)) == 1, opt(_ap(n.self).procedure_timer, lambda t: Not_(B(t.expired)), False))))), ("C04", "C14")),
      Clause("C04.nak.first_issuance_does_not_count", lambda o, n, r: Implies_(And_(
          B(_ap(o.self).deferred_lost_segment_detection_active), Not_(_dl_nothing_missing(o)), _dl_timer_state(o)[0]), And_(
          no_fault(n), unchanged(o, n, "_params.acked_params.nak_activity_counter"), len(timer_resets(n)) == 0,
          opt(_ap(n.self).procedure_timer, lambda t: Not_(B(t.expired)), False))), ("C04",)),
      Clause("C06.final_nak_flushes_the_remainder", lambda o, n, r: Implies_(_dl_issues_naks(o), (
          (lambda ps: (len(ps) <= 1) and (True if len(ps) == 0 else _nak_is(
              ps[0], o.self, TR._as_pl(ps[0].segment_requests), TR._as_pl(ps[0].segment_requests).n)))(emitted(n)))), ("C06",)),
      Clause("C06.no_other_output", lambda o, n, r: len(inds(n)) == 0, ("C06",)),
      Clause("inv.tracker", lambda o, n, r: Implies_(ne(n.self.states.state, IDLE), tracker_inv(n.self)), ("C06",)),
  ] + inv_clauses(("C04",)),
  loops={0: LoopSpec(_dl_loop_inv, modifies=["self._pdus_to_be_sent", "self.states._num_packets_ready",
                                            "self._params.pdu_conf.direction"], props=("C06",),
                     body_post=_dl_body_post, local_types={"next_segment_reqs": T.PairList})},
  effects={"vfs", "timer", "fault_cb"}, modular=True)


# ==============================================================================================
# transactions that start without the Metadata PDU (acknowledged mode): C06 whole-extent re-request, C05 nothing written
# ==============================================================================================
def _busy_acked(o):
    h = o.self
    return And_(ne(h.states.state, IDLE), Not_(isnone(h._params.transaction_id)), Not_(isnone(h._params.remote_cfg)),
                eq(mode(h), ACK))


FDWM_MOD = ["self._params.fp.progress", "self._params.acked_params.lost_seg_tracker.lost_segments",
            "self._params.acked_params.last_start_offset", "self._params.acked_params.last_end_offset",
            "self._pdus_to_be_sent", "self.states._num_packets_ready"]


def _fdwm_len(o):
    return o.fd_pdu.file_data.length()


def _fdwm_end(o):
    return o.fd_pdu.offset + _fdwm_len(o)


def _fdwm_progress(o):
    e = _fdwm_end(o)
    return z3.If(e >= o.self._params.fp.progress, e, o.self._params.fp.progress)


C("_handle_fd_without_previous_metadata", arg_types={**SELF, "first_pdu": T.Bool, "fd_pdu": T.Obj(_FD)},
  props=("C06", "C05"), result=None,
  requires=REQ_INV + REQ_TRK + [("acked_busy", _busy_acked), ("pdu_wf", lambda o: pdu_wf(o.fd_pdu)),
                                ("metadata_missing", lambda o: And_(B(_ap(o.self).metadata_missing), step_is(o.self, STEP.WAITING_FOR_METADATA))),
                                ("whole_extent_rerequested", lambda o: B(o.first_pdu))],
  modifies=FDWM_MOD,
  ensures=[
      Clause("C05.file_data_before_metadata_is_not_written", lambda o, n, r: len(vfs_ops(n)) == 0, ("C05",)),
      # nothing can be stored before the Metadata PDU: exactly the extent seen so far is listed as lost (never less)
      Clause("C06.data_before_metadata_is_recorded_as_lost", lambda o, n, r: Implies_(_fdwm_len(o) > 0, And_(
          z3.ForAll([TR.X], TR.view(trk(n.self), TR.X) == z3.And(0 <= TR.X, TR.X < _fdwm_progress(o))),
          n.self._params.acked_params.last_end_offset == _fdwm_progress(o),
          n.self._params.acked_params.last_start_offset == _fdwm_progress(o))), ("C06",)),
      Clause("C06.metadata_rerequested_immediately", lambda o, n, r: And_(
          Implies_(And_(B(rcfg(o.self).immediate_nak_mode), _fdwm_len(o) > 0),
                   _one_nak(n, _fdwm_progress(o), [(0, 0), (0, _fdwm_progress(o))], o.self)),
          Implies_(And_(B(rcfg(o.self).immediate_nak_mode), _fdwm_len(o) == 0),
                   _one_nak(n, _fdwm_progress(o), [(0, 0)], o.self)),
          Implies_(Not_(B(rcfg(o.self).immediate_nak_mode)), len(emitted(n)) == 0)), ("C06",)),
      Clause("C06.progress_never_moves_backwards", lambda o, n, r: n.self._params.fp.progress == _fdwm_progress(o), ("C06",)),
      Clause("C06.empty_segment_changes_no_bookkeeping", lambda o, n, r: Implies_(_fdwm_len(o) == 0, And_(
          unchanged(o, n, "_params.acked_params.last_start_offset", "_params.acked_params.last_end_offset"),
          TR.same_map(trk(n.self), trk(o.self)) if trk(n.self) is not trk(o.self) else True)), ("C06",)),
      Clause("inv.tracker", lambda o, n, r: tracker_inv(n.self), ("C06", "C10")),
      Clause("C15.no_indication_before_metadata", lambda o, n, r: len(inds(n)) == 0 and len(fault_cbs(n)) == 0, ("C15", "C05")),
      Clause("queue.counter", lambda o, n, r: to_z3_int(n.self.states._num_packets_ready) == n.self._pdus_to_be_sent.length(), ("C06",)),
  ],
  effects=set(), modular=True)


EOFWM_MOD = ["self._params.fp.progress", "self._params.fp.file_size_eof", "self._params.fp.crc32",
             "self._params.acked_params.metadata_missing", "self._params.acked_params.lost_seg_tracker.lost_segments",
             "self._pdus_to_be_sent", "self.states._num_packets_ready", "self.states.step"]


def _eofwm_ind_ok(o, n):
    sw = B(o.self.cfg.indication_cfg.eof_recv_indication_required)
    es = inds(n, "eof_recv_indication")
    if len(es) == 0:
        return Not_(sw)
    if len(es) != 1 or len(inds(n)) != 1:
        return False
    return And_(sw, tid_eq(es[0]["args"][0], val(o.self._params.transaction_id)))


def _eofwm_size_error(o):
    """CFDP 4.6.1.2.9: more data was received than the EOF PDU announces"""
    return o.self._params.fp.progress > o.eof_pdu.file_size


def _size_error_cancels(o, n):
    """File Size Error with the default fault table: one notice-of-cancellation callback, the transaction is cancelled with that
    condition and goes to completion; nothing is emitted and the bookkeeping is untouched"""
    return And_(declared(n, CC.FILE_SIZE_ERROR, "notice_of_cancellation_cb"), len(emitted(n)) == 0, len(inds(n)) == 0,
                len(vfs_ops(n)) == 0, step_is(n.self, STEP.TRANSFER_COMPLETION),
                eq(n.self._params.completion_disposition, CANCELED), Eq_(_fpar(n.self).condition_code, CC.FILE_SIZE_ERROR),
                unchanged(o, n, "_params.fp.progress", "_params.fp.file_size_eof", "_params.acked_params.last_end_offset",
                          "_params.acked_params.metadata_missing"),
                z3.ForAll([TR.X], TR.view(trk(n.self), TR.X) == TR.view(trk(o.self), TR.X)),
                n.self._pdus_to_be_sent.length() == o.self._pdus_to_be_sent.length())


def _eofwm_cancel(o):
    return ne(o.eof_pdu.condition_code, CC.NO_ERROR)


def _unless_size_error(f):
    """for an EOF (no error) that is not a File Size Error"""
    return lambda o, n, r: Implies_(And_(Not_(_eofwm_cancel(o)), Not_(_eofwm_size_error(o))), f(o, n, r))


def _unless_size_error_or(f):
    """for every EOF PDU that is not a File Size Error (an EOF (cancel) is never one: its size is the sender's progress)"""
    return lambda o, n, r: Implies_(Or_(_eofwm_cancel(o), Not_(_eofwm_size_error(o))), f(o, n, r))


C("_handle_eof_without_previous_metadata", arg_types={**SELF, "eof_pdu": T.Obj(EofPdu)}, props=("C06", "C05", "C15", "C01"), result=None,
  requires=REQ_INV + REQ_TRK + DEFAULT + [("acked_busy", _busy_acked), ("pdu_wf", lambda o: pdu_wf(o.eof_pdu)),
                                          ("waiting_for_metadata", lambda o: step_is(o.self, STEP.WAITING_FOR_METADATA)),
                                          ("DestStepInv", lambda o: step_inv(o.self)),
                                          # (follows from the step invariant) what is known of the extent so far is covered by the progress
                                          ("extent_covered_by_progress", lambda o: And_(
                                              _ap(o.self).last_end_offset <= o.self._params.fp.progress,
                                              opt(o.self._params.fp.file_size_eof, lambda s: s <= o.self._params.fp.progress, True)))],
  modifies=EOFWM_MOD + ["self._params.completion_disposition", "self._params.finished_params.condition_code",
                        "self._params.finished_params.fault_location", "self._params.finished_params.delivery_code"],
  ensures=[
      # F13b (fixed): an EOF PDU that announces less than the data already seen is a File Size Error, not a new extent
      Clause("C06.eof_smaller_than_received_data_is_a_file_size_error", lambda o, n, r: Implies_(
          And_(Not_(_eofwm_cancel(o)), _eofwm_size_error(o)), _size_error_cancels(o, n)), ("C06", "C10", "C14")),
      Clause("C01.eof_fields_stored", _unless_size_error_or(lambda o, n, r: And_(
          opt(n.self._params.fp.crc32, lambda c: Eq_(c, o.eof_pdu.file_checksum), False),
          opt(n.self._params.fp.file_size_eof, lambda s: Eq_(s, o.eof_pdu.file_size), False),
          n.self._params.fp.progress == o.eof_pdu.file_size)), ("C01",)),
      Clause("C06.whole_file_rerequested", _unless_size_error(lambda o, n, r: And_(
          B(_ap(n.self).metadata_missing),
          Implies_(o.eof_pdu.file_size > 0, z3.ForAll([TR.X], TR.view(trk(n.self), TR.X) == z3.And(0 <= TR.X, TR.X < o.eof_pdu.file_size))),
          Implies_(o.eof_pdu.file_size == 0, z3.ForAll([TR.X], TR.view(trk(n.self), TR.X) == TR.view(trk(o.self), TR.X))))), ("C06",)),
      Clause("C15.eof_recv_indication", _unless_size_error_or(lambda o, n, r: _eofwm_ind_ok(o, n)), ("C15",)),
      # C12 (finding F16, repaired): an EOF (cancel) finishes the transaction with the EOF's condition and the sender as fault location
      # -- also when the Metadata PDU is missing; nothing is re-requested for it
      Clause("C12.eof_cancel_before_metadata", lambda o, n, r: Implies_(_eofwm_cancel(o), And_(
          eq(n.self._params.completion_disposition, CANCELED), Eq_(_fpar(n.self).condition_code, o.eof_pdu.condition_code),
          eq(_fpar(n.self).delivery_code, DeliveryCode.DATA_INCOMPLETE),
          z3.ForAll([TR.X], TR.view(trk(n.self), TR.X) == TR.view(trk(o.self), TR.X)),
          len(fault_cbs(n)) == 0)), ("C12",)),
      Clause("state.eof_cancel_before_metadata", lambda o, n, r: Implies_(_eofwm_cancel(o), And_(
          eq(n.self._params.completion_disposition, CANCELED), Eq_(_fpar(n.self).condition_code, o.eof_pdu.condition_code),
          eq(_fpar(n.self).delivery_code, DeliveryCode.DATA_INCOMPLETE),
          unchanged(o, n, "_params.acked_params.metadata_missing", "_params.acked_params.last_end_offset"),
          z3.ForAll([TR.X], TR.view(trk(n.self), TR.X) == TR.view(trk(o.self), TR.X)))), ("C12", "C10")),
      Clause("C03.eof_is_acknowledged", _unless_size_error_or(lambda o, n, r: _eof_ack_emitted(o, n)), ("C03", "C02")),
      Clause("C03.next_step_sends_the_eof_ack", _unless_size_error_or(lambda o, n, r: And_(
          step_is(n.self, STEP.SENDING_EOF_ACK_PDU), n.self._pdus_to_be_sent.length() == o.self._pdus_to_be_sent.length() + 1)), ("C03", "C02")),
      Clause("C05.nothing_written", lambda o, n, r: len(vfs_ops(n)) == 0, ("C05",)),
      Clause("C14.no_fault_otherwise", _unless_size_error(lambda o, n, r: len(fault_cbs(n)) == 0), ("C14", "C05")),
      Clause("state.disposition_untouched_otherwise", _unless_size_error(lambda o, n, r: unchanged(
          o, n, "_params.completion_disposition", "_params.finished_params.condition_code",
          "_params.finished_params.delivery_code")), ("C06", "C10")),
      Clause("state.delivery_code_untouched_by_size_error", lambda o, n, r: Implies_(
          And_(Not_(_eofwm_cancel(o)), _eofwm_size_error(o)), unchanged(o, n, "_params.finished_params.delivery_code")), ("C06", "C10")),
      Clause("state.size_error_cancels", lambda o, n, r: Implies_(And_(Not_(_eofwm_cancel(o)), _eofwm_size_error(o)), And_(
          step_is(n.self, STEP.TRANSFER_COMPLETION), eq(n.self._params.completion_disposition, CANCELED),
          Eq_(_fpar(n.self).condition_code, CC.FILE_SIZE_ERROR),
          unchanged(o, n, "_params.fp.progress", "_params.fp.file_size_eof", "_params.fp.crc32", "_params.acked_params.metadata_missing"),
          z3.ForAll([TR.X], TR.view(trk(n.self), TR.X) == TR.view(trk(o.self), TR.X)),
          n.self._pdus_to_be_sent.length() == o.self._pdus_to_be_sent.length())), ("C06", "C10")),
      Clause("queue.counter", lambda o, n, r: to_z3_int(n.self.states._num_packets_ready) == n.self._pdus_to_be_sent.length(), ("C06",)),
      Clause("inv.tracker", lambda o, n, r: tracker_inv(n.self), ("C06", "C10")),
  ],
  effects={"user", "fault_cb"}, modular=True)
CONTRACTS[-1].inline_callees = {"DestHandler._handle_eof_pdu"}   # (an EOF (cancel) is handed to the regular EOF handler)


# ==============================================================================================
# C03: waiting for the missing Metadata PDU (deferred procedure stays serviced; progress resets the NAK count)
# ==============================================================================================
WMM_MOD = sorted(set(MD_MOD + FDWM_MOD + EOFWM_MOD + ["self._params.acked_params.nak_activity_counter",
                                                     "self._params.acked_params.procedure_timer.expired",
                                                     "self._params.completion_disposition",
                                                     "self._params.finished_params.condition_code",
                                                     "self._params.finished_params.fault_location",
                                                     "self._params.finished_params.delivery_code"]))


def _wmm_fd_beyond_eof(o):
    return opt(o.self._params.fp.file_size_eof, lambda fse: _hp(o).offset + _hp(o).file_data.length() > fse, False)


def _size_error_cancels_wmm(o, n):
    return And_(declared(n, CC.FILE_SIZE_ERROR, "notice_of_cancellation_cb"), len(emitted(n)) == 0, len(inds(n)) == 0,
                len(vfs_ops(n)) == 0, step_is(n.self, STEP.TRANSFER_COMPLETION),
                eq(n.self._params.completion_disposition, CANCELED), Eq_(_fpar(n.self).condition_code, CC.FILE_SIZE_ERROR),
                unchanged(o, n, "_params.fp.progress", "_params.fp.file_size_eof", "_params.acked_params.last_end_offset"),
                z3.ForAll([TR.X], TR.view(trk(n.self), TR.X) == TR.view(trk(o.self), TR.X)))


def _wmm_pre(o):
    h = o.self
    return And_(_busy_acked(o), step_is(h, STEP.WAITING_FOR_METADATA), B(_ap(h).metadata_missing), pdu_wf(_hp(o)),
                Implies_(B(_ap(h).deferred_lost_segment_detection_active), Not_(isnone(_ap(h).procedure_timer))))


def _hp(o):
    p = o.packet_holder.pdu
    return val(p) if isinstance(p, SOpt) else p


def _hp_is(o, cls):
    p = _hp(o)
    return p is not None and p.cls is cls


from spacepackets.cfdp.pdu import PduHolder as _PH  # noqa: E402

DEST_ADMITTED = T.OneOf([_FD, MetadataPdu, EofPdu, AckPdu, PromptPdu], allow_none=True)


def _dest_holder_setup(interp, roots):
    """any PDU kind the destination admission check lets through (see its contract), or nothing"""
    roots["packet_holder"].f["pdu"] = interp.fresh_value(DEST_ADMITTED, "packet")
    p = roots["packet_holder"].f["pdu"]
    if p is not None and p.cls is MetadataPdu:
        for k in ("source_file_name", "dest_file_name"):
            p.f[k] = interp.force(p.f[k])


def _deferred(h):
    return B(_ap(h).deferred_lost_segment_detection_active)


C("_handle_waiting_for_missing_metadata", arg_types={**SELF, "packet_holder": T.Obj(_PH)}, setup=_dest_holder_setup,
  props=("C03", "C04", "C06", "C10", "C14"), result=None,
  requires=REQ_INV + REQ_TRK + DEFAULT + [("waiting_for_metadata", _wmm_pre),
            ("names_together", lambda o: (_hp(o).dest_file_name is None) == (_hp(o).source_file_name is None) if _hp_is(o, MetadataPdu) else True),
            ("DestStepInv", lambda o: step_inv(o.self)),
            ],
  modifies=WMM_MOD,
  cond_frames=[("C10.other_pdus_are_ignored", lambda o: True if not (_hp_is(o, _FD) or _hp_is(o, MetadataPdu) or _hp_is(o, EofPdu)) else False,
                [], {"silent": True})],
  ensures=[
      # F3: once the EOF has started the deferred procedure, the late Metadata PDU must leave the handler in a step in
      # which that procedure keeps being run
      Clause("C03.deferred_procedure_stays_serviced", lambda o, n, r: Implies_(And_(ne(n.self.states.state, IDLE), _deferred(n.self)),
             step_is(n.self, STEP.WAITING_FOR_METADATA, STEP.WAITING_FOR_MISSING_DATA, STEP.TRANSFER_COMPLETION, STEP.SENDING_EOF_ACK_PDU)), ("C03",)),
      Clause("C04.nak.received_metadata_or_eof_resets_the_count", lambda o, n, r: (
          Implies_(And_(_deferred(o.self), ne(n.self.states.state, IDLE)), And_(
              _ap(n.self).nak_activity_counter == 0, opt(_ap(n.self).procedure_timer, lambda t: Not_(B(t.expired)), False)))
          if (_hp_is(o, MetadataPdu) or _hp_is(o, EofPdu)) else True), ("C04",)),
      Clause("C06.file_data_keeps_whole_extent_requested", lambda o, n, r: (
          (lambda e: Implies_(And_(_hp(o).file_data.length() > 0, Not_(_wmm_fd_beyond_eof(o))), z3.ForAll([TR.X], TR.view(trk(n.self), TR.X) == z3.And(
              0 <= TR.X, TR.X < z3.If(e >= o.self._params.fp.progress, e, o.self._params.fp.progress)))))(
              _hp(o).offset + _hp(o).file_data.length())
          if _hp_is(o, _FD) else True), ("C06",)),
      # F13c / F13b (fixed): File Data beyond the size of an EOF PDU received earlier, and an EOF PDU that announces less than the
      # data already seen, are File Size Errors (default table: the transaction is cancelled) and never become part of the extent
      Clause("C06.file_data_beyond_eof_size_is_a_file_size_error", lambda o, n, r: (
          Implies_(_wmm_fd_beyond_eof(o), _size_error_cancels_wmm(o, n)) if _hp_is(o, _FD) else True), ("C06", "C10", "C14")),
      Clause("C06.eof_smaller_than_received_data_is_a_file_size_error", lambda o, n, r: (
          Implies_(And_(eq(_hp(o).condition_code, CC.NO_ERROR), o.self._params.fp.progress > _hp(o).file_size),
                   _size_error_cancels_wmm(o, n)) if _hp_is(o, EofPdu) else True),
          ("C06", "C10", "C14")),
      # F13: File Data arriving here after the EOF PDU (ranges already tracked) breaks the bookkeeping: excluded by the
      # precondition `extent_not_tracked`; without an EOF so far the invariants are kept
      Clause("inv.tracker", lambda o, n, r: Implies_(ne(n.self.states.state, IDLE), tracker_inv(n.self)), ("C10", "C06")),
      # (C14: the step invariant says that a cancellation declared in this call - filestore rejection of the late Metadata PDU, File
      #  Size Error - is still in effect when the call returns)
      Clause("inv.step", lambda o, n, r: Implies_(ne(n.self.states.state, IDLE), step_inv(n.self)), ("C10", "C03", "C14")),
      Clause("C03.metadata_ends_the_wait", lambda o, n, r: (
          Implies_(ne(n.self.states.state, IDLE), And_(Not_(B(_ap(n.self).metadata_missing)), Not_(step_is(n.self, STEP.WAITING_FOR_METADATA))))
          if _hp_is(o, MetadataPdu) else True), ("C03", "C02")),
  ] + inv_clauses(("C03",)),
  raises=[RaiseClause("vfs.truncate_race", FileNotFoundError, when=lambda o: _hp_is(o, MetadataPdu), props=("C10",), modifies=WMM_MOD)],
  effects={"vfs", "user", "fault_cb", "timer"}, modular=True)
# (executed inline so that the File Size Error branch of the EOF handler is seen with its callbacks)
CONTRACTS[-1].inline_callees = {"DestHandler._handle_eof_without_previous_metadata"}


# ==============================================================================================
# after the EOF ACK was retrieved: start of the deferred procedure or completion (C01 guard, C06, C03)
# ==============================================================================================
SD_MOD = sorted(set(DL_MOD + ["self._params.acked_params.lost_seg_tracker.lost_segments", "self._params.acked_params.last_start_offset",
                              "self._params.acked_params.last_end_offset"]))


def _sd_pre(o):
    h = o.self
    return And_(_busy_acked(o), step_is(h, STEP.SENDING_EOF_ACK_PDU), Not_(isnone(h._params.fp.file_size_eof)),
                ne(h._params.completion_disposition, CANCELED),   # (F22: never started for a cancelled transaction)
                opt(h._params.fp.file_size_eof, lambda s: And_(s >= 0, s >= _ap(h).last_end_offset), False), nak_cfg_valid(h),
                Or_(_ck_trivial(o), Not_(isnone(h._params.fp.crc32))))


C("_start_deferred_lost_segment_handling", arg_types=SELF, props=("C06", "C03", "C04"), result=None,
  requires=REQ_INV + REQ_TRK + DEFAULT + [("eof_ack_sent", _sd_pre),
                                          ("something_missing", lambda o: Or_(trk(o.self).n > 0, B(_ap(o.self).metadata_missing)))],
  modifies=SD_MOD,
  ensures=[
      Clause("C03.deferred_procedure_started_and_serviced", lambda o, n, r: Implies_(isnone(_ap(o.self).procedure_timer), And_(
          _deferred(n.self), Implies_(B(_ap(o.self).metadata_missing), step_is(n.self, STEP.WAITING_FOR_METADATA)),
          Implies_(Not_(B(_ap(o.self).metadata_missing)), step_is(n.self, STEP.WAITING_FOR_MISSING_DATA)),
          Not_(isnone(_ap(n.self).procedure_timer)), _ap(n.self).nak_activity_counter == 0)), ("C03", "C04")),
      Clause("C06.coalescing_keeps_the_missing_set", lambda o, n, r: z3.ForAll(
          [TR.X], TR.view(trk(n.self), TR.X) == TR.view(trk(o.self), TR.X)), ("C06", "C18")),
      Clause("C06.extent_is_eof_size_from_now_on", lambda o, n, r: And_(
          n.self._params.acked_params.last_end_offset == val(o.self._params.fp.file_size_eof),
          n.self._params.acked_params.last_start_offset == val(o.self._params.fp.file_size_eof)), ("C06",)),
      Clause("C04.nak.first_sequence_issued_at_once", lambda o, n, r: Implies_(
          isnone(_ap(o.self).procedure_timer), len(fault_cbs(n)) == 0 and len(inds(n)) == 0), ("C04", "C06")),
      Clause("inv.tracker", lambda o, n, r: Implies_(val(o.self._params.fp.file_size_eof) >= o.self._params.acked_params.last_end_offset,
                                                     tracker_inv(n.self)), ("C06",)),
  ] + inv_clauses(("C03",)),
  effects={"timer", "vfs", "fault_cb"}, modular=True)
CONTRACTS[-1].inline_callees = {"DestHandler._deferred_lost_segment_handling"}


FA_MOD = sorted(set(SD_MOD + ["self._params.finished_params.delivery_code", "self._params.finished_params.condition_code"]))

C("_fsm_advancement_after_packets_were_sent", arg_types=SELF, props=("C01", "C06", "C03", "C10", "C12"), result=None,
  requires=REQ_INV + REQ_TRK + DEFAULT + [
      ("busy", lambda o: And_(ne(o.self.states.state, IDLE), Not_(isnone(o.self._params.transaction_id)), Not_(isnone(o.self._params.remote_cfg)))),
      ("eof_ack_step", lambda o: Implies_(step_is(o.self, STEP.SENDING_EOF_ACK_PDU), And_(
          eq(mode(o.self), ACK), Not_(isnone(o.self._params.fp.file_size_eof)),
          opt(o.self._params.fp.file_size_eof, lambda s: And_(s >= 0, Or_(
              s >= _ap(o.self).last_end_offset, eq(o.self._params.completion_disposition, CANCELED))), False),
          nak_cfg_valid(o.self), Or_(_ck_trivial(o), Not_(isnone(o.self._params.fp.crc32)))))),
  ],
  modifies=FA_MOD,
  cond_frames=[("C10.other_steps_untouched", lambda o: Not_(step_is(o.self, STEP.SENDING_EOF_ACK_PDU)), [], {"silent": True})],
  ensures=[
      Clause("C06.completion_only_when_nothing_is_missing", lambda o, n, r: Implies_(step_is(o.self, STEP.SENDING_EOF_ACK_PDU), And_(
          Implies_(And_(trk(o.self).n == 0, Not_(B(_ap(o.self).metadata_missing))), And_(
              step_is(n.self, STEP.TRANSFER_COMPLETION), len(emitted(n)) == 0,
              # C12/C14: verification never overwrites the condition of a cancelled transaction
              Implies_(eq(o.self._params.completion_disposition, CANCELED), And_(
                  len(vfs_ops(n)) == 0, unchanged(o, n, "_params.finished_params.condition_code", "_params.finished_params.delivery_code"))),
              Implies_(And_(ne(o.self._params.completion_disposition, CANCELED), Not_(_ck_trivial(o))),
                       len(vfs_ops(n, "calculate_checksum")) == 1))),
          Implies_(And_(Or_(trk(o.self).n > 0, B(_ap(o.self).metadata_missing)), isnone(_ap(o.self).procedure_timer),
                        ne(o.self._params.completion_disposition, CANCELED)), And_(
              _deferred(n.self), step_is(n.self, STEP.WAITING_FOR_METADATA, STEP.WAITING_FOR_MISSING_DATA))))), ("C06", "C01", "C12", "C03")),
      # C12 (finding F22): a transaction cancelled by an EOF (cancel) completes with the EOF's condition: no NAK procedure is started
      # for it (a NAK limit fault would replace the condition code and the fault location)
      Clause("C12.no_nak_procedure_after_eof_cancel", lambda o, n, r: Implies_(
          And_(step_is(o.self, STEP.SENDING_EOF_ACK_PDU), eq(o.self._params.completion_disposition, CANCELED)), And_(
              step_is(n.self, STEP.TRANSFER_COMPLETION), len(emitted(n)) == 0, len(vfs_ops(n)) == 0,
              iff(_deferred(n.self), _deferred(o.self)),
              unchanged(o, n, "_params.finished_params.condition_code", "_params.finished_params.delivery_code"))), ("C12",)),
      Clause("inv.tracker", lambda o, n, r: Implies_(Or_(Not_(step_is(o.self, STEP.SENDING_EOF_ACK_PDU)), opt(
          o.self._params.fp.file_size_eof, lambda s: s >= o.self._params.acked_params.last_end_offset, True),
          eq(o.self._params.completion_disposition, CANCELED)), tracker_inv(n.self)), ("C06",)),
  ] + inv_clauses(("C03",)),
  raises=[RaiseClause("C10.unretrieved_truthful", D.UnretrievedPdusToBeSent, iff=True,
                      when=lambda o: o.self._pdus_to_be_sent.length() > 0, props=("C10",), modifies=[])],
  effects={"vfs", "timer", "fault_cb"}, modular=True)
CONTRACTS[-1].contract_callees = {"DestHandler._start_deferred_lost_segment_handling"}
for _c in CONTRACTS:
    if _c.fq.endswith("._start_deferred_lost_segment_handling") or _c.fq.endswith("DestHandler._handle_eof_pdu"):
        _c.cost_hint = 4


# ==============================================================================================
# C04 (receiver): Finished PDU sent, waiting for its ACK
# ==============================================================================================
C("_handle_finished_pdu_sent", arg_types=SELF, props=("C04", "C02"), result=None,
  requires=REQ_INV + [("finished_queued", lambda o: And_(ne(o.self.states.state, IDLE), step_is(o.self, STEP.SENDING_FINISHED_PDU),
                                                        Not_(isnone(o.self._params.remote_cfg))))],
  modifies=["self._params.positive_ack_params.ack_timer", "self._params.positive_ack_params.ack_counter", "self.states.step",
            "self.states.state", "self._params"],
  ensures=[
      Clause("C04.fin.ack_procedure_started", lambda o, n, r: Implies_(eq(mode(o.self), ACK), And_(
          step_is(n.self, STEP.WAITING_FOR_FINISHED_ACK), _pa(n.self).ack_counter == 0,
          opt(_pa(n.self).ack_timer, lambda t: Not_(B(t.expired)), False), n.self._params.oid == o.self._params.oid)), ("C04",)),
      Clause("C02.unacked_closure_ends_after_finished", lambda o, n, r: Implies_(eq(mode(o.self), UNACK), And_(
          eq(n.self.states.state, IDLE), eq(n.self.states.step, STEP.IDLE), fresh_params(n.self._params, o.self._params))), ("C02", "C11")),
      Clause("silent", lambda o, n, r: len([e for e in n.trace if e["kind"] in ("pdu", "ind", "fault_cb", "vfs")]) == 0, ("C04",)),
  ],
  effects={"timer"}, modular=False)


def _wfa_pre(o):
    h = o.self
    return And_(step_is(h, STEP.WAITING_FOR_FINISHED_ACK), ne(h.states.state, IDLE), pdu_wf(_hp(o)),
                Implies_(_pa_expired(o), qempty(h)))


WFA_MOD = ["self._params.positive_ack_params.ack_counter", "self._params.positive_ack_params.ack_timer",
           "self._params.positive_ack_params.ack_timer.expired", "self._pdus_to_be_sent", "self.states._num_packets_ready",
           "self.states.step", "self.states.state", "self._params.finished_params.condition_code",
           "self._params.finished_params.file_status", "self._params.completion_disposition", "self._params"]

C("_handle_waiting_for_finished_ack", arg_types={**SELF, "packet_holder": T.Obj(_PH)}, setup=_dest_holder_setup,
  props=("C04", "C02", "C11", "C03"), result=None,
  requires=REQ_INV + REQ_TRK + DEFAULT + [("waiting_for_finished_ack", _wfa_pre)],
  modifies=WFA_MOD,
  cond_frames=[("C04.fin.nothing_happens_before_expiry", lambda o: (Not_(_pa_expired(o)) if not _hp_is(o, AckPdu) else False),
                [], {"silent": True})],
  ensures=[
      Clause("C04.fin.ack_ends_the_transaction", lambda o, n, r: (And_(
          eq(n.self.states.state, IDLE), eq(n.self.states.step, STEP.IDLE), fresh_params(n.self._params, o.self._params),
          len([e for e in n.trace if e["kind"] in ("pdu", "ind", "fault_cb", "vfs")]) == 0)
          if _hp_is(o, AckPdu) else True), ("C04", "C02", "C11")),
      Clause("C04.fin.expiry_without_ack_resends", lambda o, n, r: (
          Implies_(And_(_pa_expired(o), Not_(_pa_limit_hit(o))), And_(
              _pa(n.self).ack_counter == _pa(o.self).ack_counter + 1, _fin_pdu_is_live(n), step_is(n.self, STEP.WAITING_FOR_FINISHED_ACK)))
          if not _hp_is(o, AckPdu) else True), ("C04",)),
      # C03 (open finding F26): a re-sent EOF PDU (its ACK was lost) must be acknowledged again, otherwise the sender, which ignores
      # the Finished PDU while it waits for the EOF ACK, and the receiver wait for each other until both give up
      Clause("C03.resent_eof_is_acknowledged_again", lambda o, n, r: (
          any(p.cls is AckPdu for p in emitted(n)) if _hp_is(o, EofPdu) else True), ("C03",), assumable=False),
  ] + inv_clauses(("C04",)),
  effects={"timer", "fault_cb", "user", "vfs"}, modular=True)
CONTRACTS[-1].inline_callees = {"DestHandler.__non_idle_fsm", "DestHandler.__idle_fsm"}  # the recursive state_machine() call
CONTRACTS[-1].cost_hint = 3


# ==============================================================================================
# transaction start at the receiver (C11 fresh state, C02/C03 first packet), idle FSM
# ==============================================================================================
def _first_packet_setup(interp, roots):
    roots["packet"] = interp.fresh_value(T.OneOf([_FD, MetadataPdu, EofPdu], allow_none=True), "packet")
    p = roots["packet"]
    if p is not None and p.cls is MetadataPdu:
        for k in ("source_file_name", "dest_file_name"):
            p.f[k] = interp.force(p.f[k])


def _idle_pre(o):
    """what the admission check guarantees for an idle handler: the first packet is Metadata (any mode) or, in
    acknowledged mode, File Data / EOF; its source entity is in the remote configuration table"""
    h, p = o.self, o.packet
    if p is None:
        return eq(h.states.state, IDLE)
    return And_(eq(h.states.state, IDLE), pdu_wf(p),
                True if p.cls is MetadataPdu else eq(p.pdu_conf.trans_mode, ACK),
                ((p.dest_file_name is None) == (p.source_file_name is None)) if p.cls is MetadataPdu else True,
                qempty(h))


IDLE_MOD = sorted(set(["self._params", "self.states.state", "self.states.step", "self.states.transaction_id",
                       "self._pdus_to_be_sent", "self.states._num_packets_ready", "packet.pdu_conf.direction"]))


def _idle_started_ok(o, n):
    """the transaction was opened on a FRESH parameter block with the packet's ids and the sender's configuration"""
    p = o.packet
    np = n.self._params
    return And_(
        np.oid != o.self._params.oid, np.acked_params.lost_seg_tracker.oid != o.self._params.acked_params.lost_seg_tracker.oid,
        opt(np.transaction_id, lambda t: And_(Eq_(t.source_id.value, p.pdu_conf.source_entity_id.value),
                                              Eq_(t.seq_num.value, p.pdu_conf.transaction_seq_num.value)), False),
        opt(np.remote_cfg, lambda rc: Eq_(rc.entity_id.value, p.pdu_conf.source_entity_id.value), False),
        Eq_(np.pdu_conf.trans_mode, p.pdu_conf.trans_mode), eq(np.pdu_conf.direction, Direction.TOWARDS_SENDER),
        eq(n.self.states.state, BUSY))


def _idle_contract():
    c = C("__idle_fsm", arg_types={**SELF, "packet": T.Opaque}, setup=_first_packet_setup, props=("C11", "C02", "C03", "C10"),
          result=None,
          requires=REQ_INV + DEFAULT + [("idle_and_admitted", _idle_pre),
                    ("sender_known", lambda o: True if o.packet is None else cfg_known(to_z3_int(o.packet.pdu_conf.source_entity_id.value)))],
          modifies=IDLE_MOD,
          cond_frames=[("C10.no_packet_no_effect", lambda o: o.packet is None, [], {"silent": True})],
          ensures=[
              Clause("C11.dest.transaction_starts_on_fresh_state", lambda o, n, r: True if o.packet is None else Implies_(
                  ne(n.self.states.state, IDLE), _idle_started_ok(o, n)), ("C11", "C02")),
              Clause("C02.metadata_first_starts_reception", lambda o, n, r: (
                  Implies_(ne(n.self.states.state, IDLE), And_(
                      step_is(n.self, STEP.RECEIVING_FILE_DATA, STEP.TRANSFER_COMPLETION),
                      Not_(B(_ap(n.self).metadata_missing)), trk(n.self).n == 0,
                      n.self._params.fp.progress == 0, len(emitted(n)) == 0))
                  if (o.packet is not None and o.packet.cls is MetadataPdu) else True), ("C02", "C05")),
              Clause("C03.data_or_eof_first_waits_for_metadata", lambda o, n, r: (
                  And_(B(_ap(n.self).metadata_missing), Implies_(o.packet.cls is _FD, step_is(n.self, STEP.WAITING_FOR_METADATA)),
                       Implies_(o.packet.cls is EofPdu, step_is(n.self, STEP.SENDING_EOF_ACK_PDU)),
                       len(vfs_ops(n)) == 0)
                  if (o.packet is not None and o.packet.cls is not MetadataPdu) else True), ("C03", "C05", "C06")),
              Clause("inv.tracker", lambda o, n, r: Implies_(ne(n.self.states.state, IDLE), tracker_inv(n.self)), ("C06", "C11")),
          ] + inv_clauses(("C11",)),
          raises=[RaiseClause("vfs.truncate_race", FileNotFoundError, when=lambda o: o.packet is not None and o.packet.cls is MetadataPdu,
                              props=("C10",), modifies=IDLE_MOD)],
          effects={"vfs", "user", "fault_cb"}, modular=True)
    return c


_idle_contract()


# ==============================================================================================
# the receiver's state machine, one instance per step (C10, C16, C05, C02/C03 dispatch), and its public wrapper
# ==============================================================================================
def _d_admitted(o):
    """post of the admission check for a busy handler"""
    p, h = o.packet, o.self
    if p is None:
        return True
    return And_(pdu_wf(p), p.cls in (_FD, MetadataPdu, EofPdu, AckPdu, PromptPdu),
                Implies_(eq(mode(h), UNACK), p.cls not in (AckPdu, PromptPdu)),
                ((p.dest_file_name is None) == (p.source_file_name is None)) if p.cls is MetadataPdu else True)


def _dfsm_setup(interp, roots):
    roots["packet"] = interp.fresh_value(DEST_ADMITTED, "packet")
    p = roots["packet"]
    if p is not None and p.cls is MetadataPdu:
        for k in ("source_file_name", "dest_file_name"):
            p.f[k] = interp.force(p.f[k])


DFSM_MOD = sorted(set(FA_MOD + FD_MOD + WMM_MOD + EOF_MOD + WFA_MOD + NOC_MOD + [
    "self._params.check_timer.expired", "self._params.current_check_count", "self._params.fp.crc32", "self._params.fp.file_size_eof"]))

DFSM_CALLEES = {"DestHandler._fsm_advancement_after_packets_were_sent", "DestHandler._handle_fd_pdu",
                "DestHandler._handle_waiting_for_missing_metadata", "DestHandler._deferred_lost_segment_handling",
                "DestHandler._handle_waiting_for_finished_ack", "DestHandler._handle_eof_pdu",
                "DestHandler._check_limit_handling", "DestHandler._handle_transfer_completion",
                "DestHandler._prepare_finished_pdu", "DestHandler._handle_finished_pdu_sent",
                "DestHandler._reset_nak_activity_parameters"}


def step_inv(h):
    """per-step facts that the dispatcher relies on (inductive over the state machine)"""
    p, fp, ap = h._params, h._params.fp, h._params.acked_params
    m = mode(h)
    return And_(
        # the EOF checksum is known in every step that can lead to a verification
        Implies_(step_is(h, STEP.RECV_FILE_DATA_WITH_CHECK_LIMIT_HANDLING, STEP.SENDING_EOF_ACK_PDU, STEP.WAITING_FOR_MISSING_DATA),
                 And_(Not_(isnone(fp.crc32)), Not_(isnone(fp.file_size_eof)))),
        Implies_(B(ap.deferred_lost_segment_detection_active), And_(
            Not_(isnone(fp.crc32)), Not_(isnone(ap.procedure_timer)),
            # (a repeated EOF PDU received while the Metadata PDU is still missing may announce a larger size: until the EOF ACK is
            # out and the procedure is restarted, last_end_offset still is the old extent)
            Implies_(step_is(h, STEP.WAITING_FOR_METADATA, STEP.WAITING_FOR_MISSING_DATA), segments_tracked_up_to_last_end(h)),
            Implies_(ne(h.states.state, IDLE), step_is(h, STEP.WAITING_FOR_METADATA, STEP.WAITING_FOR_MISSING_DATA, STEP.SENDING_EOF_ACK_PDU,
                                                      STEP.TRANSFER_COMPLETION, STEP.SENDING_FINISHED_PDU, STEP.WAITING_FOR_FINISHED_ACK)))),
        Implies_(And_(step_is(h, STEP.SENDING_EOF_ACK_PDU), B(ap.metadata_missing)), And_(
            eq(p.finished_params.delivery_code, DeliveryCode.DATA_INCOMPLETE),
            opt(fp.file_size_eof, lambda s: fp.progress == s, False))),
        Implies_(Not_(B(ap.deferred_lost_segment_detection_active)), Implies_(step_is(
            h, STEP.RECEIVING_FILE_DATA, STEP.SENDING_EOF_ACK_PDU, STEP.WAITING_FOR_METADATA), isnone(ap.procedure_timer))),
        Implies_(step_is(h, STEP.WAITING_FOR_METADATA), And_(
            eq(m, ACK), B(ap.metadata_missing), ne(p.completion_disposition, CANCELED),
            eq(p.finished_params.delivery_code, DeliveryCode.DATA_INCOMPLETE),
            Implies_(Not_(B(ap.deferred_lost_segment_detection_active)), And_(isnone(fp.file_size_eof), ap.last_end_offset <= fp.progress)),
            Implies_(B(ap.deferred_lost_segment_detection_active), opt(fp.file_size_eof, lambda s: And_(
                ap.last_end_offset == s, fp.progress == s), False)))),
        # (C14: a declared cancellation stays effective - a cancelled transaction is never waiting for more data)
        Implies_(step_is(h, STEP.WAITING_FOR_MISSING_DATA), And_(eq(m, ACK), B(ap.deferred_lost_segment_detection_active),
                                                                   Not_(B(ap.metadata_missing)), ne(p.completion_disposition, CANCELED))),
        Implies_(step_is(h, STEP.RECEIVING_FILE_DATA, STEP.RECV_FILE_DATA_WITH_CHECK_LIMIT_HANDLING), Not_(B(ap.metadata_missing))),
        Implies_(step_is(h, STEP.SENDING_EOF_ACK_PDU), And_(
            eq(m, ACK), opt(fp.file_size_eof, lambda s: s >= 0, False))),
        # acknowledged mode, file data phase: the extent is the end of the furthest segment and is covered by progress
        Implies_(And_(eq(m, ACK), step_is(h, STEP.RECEIVING_FILE_DATA)), And_(isnone(fp.file_size_eof), ap.last_end_offset <= fp.progress)),
        Implies_(And_(eq(m, ACK), step_is(h, STEP.WAITING_FOR_MISSING_DATA)), segments_tracked_up_to_last_end(h)),
        # (a transaction cancelled by an EOF (cancel) never starts the deferred procedure: its EOF size is not an extent, F21/F22)
        Implies_(And_(eq(m, ACK), step_is(h, STEP.SENDING_EOF_ACK_PDU), ne(p.completion_disposition, CANCELED)),
                 opt(fp.file_size_eof, lambda s: s >= ap.last_end_offset, True)),
        # a Finished PDU queued in this very call has a freshly started acknowledgement timer
        Implies_(And_(step_is(h, STEP.WAITING_FOR_FINISHED_ACK), h._pdus_to_be_sent.length() > 0),
                 opt(p.positive_ack_params.ack_timer, lambda t: Not_(B(t.expired)), False)),
        Implies_(step_is(h, STEP.RECEIVING_FILE_DATA, STEP.RECV_FILE_DATA_WITH_CHECK_LIMIT_HANDLING, STEP.WAITING_FOR_MISSING_DATA,
                         STEP.WAITING_FOR_METADATA, STEP.SENDING_EOF_ACK_PDU),
                 And_(Not_(B(fp.metadata_only)))),
        Implies_(step_is(h, STEP.RECEIVING_FILE_DATA, STEP.RECV_FILE_DATA_WITH_CHECK_LIMIT_HANDLING),
                 And_(ne(p.completion_disposition, CANCELED), eq(p.finished_params.delivery_code, DeliveryCode.DATA_INCOMPLETE))),
    )


REQ_STEP = [("DestStepInv", lambda o: step_inv(o.self))]


def mid_condition(h):
    """what holds between any two statements of __non_idle_fsm (and at its entry and exit): the handler invariant, and
    for a busy handler the tracker and step invariants"""
    busy = ne(h.states.state, IDLE)
    return And_(inv_formula(h), Implies_(busy, And_(
        Not_(isnone(h._params.transaction_id)), Not_(isnone(h._params.remote_cfg)), tracker_inv(h), step_inv(h),
        )))


def completion_queue_inv(h):
    """D19: when the transaction is about to complete, nothing is queued (otherwise the Finished PDU cannot be queued in the
    same call and UnretrievedPdusToBeSent is raised although the caller retrieved everything: finding F5a)"""
    return Implies_(step_is(h, STEP.TRANSFER_COMPLETION, STEP.SENDING_FINISHED_PDU), h._pdus_to_be_sent.length() == 0)

# body of __non_idle_fsm: 0 advancement, 1 holder, 2 receiving FD/EOF, 3 waiting for metadata, 4 check limit,
# 5 waiting for missing data, 6 transfer completion, 7 sending finished, 8 waiting for finished ack
DFSM_SLICES = {"ADVANCE": ((), 0), "RECEIVING": ((1,), 2), "WAITING_FOR_METADATA": ((1,), 3), "CHECK_LIMIT": ((1,), 4),
               "WAITING_FOR_MISSING_DATA": ((1,), 5), "TRANSFER_COMPLETION": ((1,), 6), "SENDING_FINISHED_PDU": ((1,), 7),
               "WAITING_FOR_FINISHED_ACK": ((1,), 8)}


def _dfsm_contract(label, sl):
    first = sl[1] == 0
    c = C("__non_idle_fsm", instance=label, arg_types={**SELF, "packet": T.Opaque}, setup=_dfsm_setup,
          props=("C10", "C16", "C05"), result=None,
          requires=[("MidCondition", lambda o: mid_condition(o.self))] + DEFAULT + [
              ("admitted", lambda o: Implies_(ne(o.self.states.state, IDLE), _d_admitted(o))),
              ] + ([("busy", lambda o: ne(o.self.states.state, IDLE))] if first else []),
          modifies=DFSM_MOD,
          ensures=[
              Clause("mid_condition", lambda o, n, r: mid_condition(n.self), ("C10", "C06", "C03")),
              # C05: every filestore mutation addresses the resolved destination file
              Clause("C05.only_the_destination_file_is_touched", lambda o, n, r: And_(*[
                  Or_(Eq_(e["path"], o.self._params.fp.file_name), Eq_(e["path"], n.self._params.fp.file_name))
                  for e in vfs_ops(n) if e.get("path") is not None and e["op"] in ("write_data", "delete_file", "truncate_file", "create_file")]),
                  ("C05",)),
          ],
          raises=([
              # C10: "unretrieved PDUs" is only raised by the first statement, i.e. for PDUs queued when the call was made
              RaiseClause("C10.unretrieved_truthful", D.UnretrievedPdusToBeSent, when=lambda o: o.self._pdus_to_be_sent.length() > 0,
                          iff=True, props=("C10",), modifies=[])] if first else []) + [
              RaiseClause("vfs.truncate_race", FileNotFoundError, when=lambda o: o.packet is not None and o.packet.cls is MetadataPdu,
                          props=("C10",), modifies=DFSM_MOD),
          ],
          effects={"vfs", "user", "timer", "fault_cb"}, modular=True)
    c.contract_callees = set(DFSM_CALLEES)
    c.slice = sl
    c.n_body_statements = 9
    c.call_default = False
    return c


for _lbl, _sl in DFSM_SLICES.items():
    _dfsm_contract(_lbl, _sl)


# ---------------------------------------------------------------------------------------------- inductive step invariant
# every function the dispatcher summarises by its contract assumes and re-establishes the tracker and step invariants
_FSM_SUMMARISED = ["_start_deferred_lost_segment_handling", "_fsm_advancement_after_packets_were_sent", "_handle_fd_pdu", "_handle_waiting_for_missing_metadata",
                   "_deferred_lost_segment_handling", "_handle_waiting_for_finished_ack", "_handle_eof_pdu",
                   "_check_limit_handling", "_handle_transfer_completion", "_prepare_finished_pdu", "_handle_finished_pdu_sent",
                   "__idle_fsm"]


def _strengthen(c):
    labels = {l for l, _ in c.requires}
    if "DestInvTracker" not in labels:
        c.requires.append(("DestInvTracker", lambda o: Implies_(ne(o.self.states.state, IDLE), tracker_inv(o.self))))
    if "DestStepInv" not in labels and not c.fq.endswith("__idle_fsm"):
        c.requires.append(("DestStepInv", lambda o: Implies_(ne(o.self.states.state, IDLE), step_inv(o.self))))
    have = {cl.label for cl in c.ensures}
    if "inv.tracker" not in have:
        c.ensures.append(Clause("inv.tracker", lambda o, n, r: Implies_(ne(n.self.states.state, IDLE), tracker_inv(n.self)), ("C10", "C06")))
    if "inv.step" not in have:
        c.ensures.append(Clause("inv.step", lambda o, n, r: Implies_(ne(n.self.states.state, IDLE), step_inv(n.self)), ("C10", "C03")))
    have = {cl.label for cl in c.ensures}
    for cl in inv_clauses(("C10",)):
        if cl.label not in have:
            c.ensures.append(cl)
    c.assumed_requires = set(c.assumed_requires) | {"DestInvTracker", "DestStepInv"}


for _c in CONTRACTS:
    if any(_c.fq.endswith("DestHandler." + nm) for nm in _FSM_SUMMARISED) and _c.instance is None:
        _strengthen(_c)


# ==============================================================================================
# public entry points of the receiver
# ==============================================================================================
def _dfsm_union():
    """summary of __non_idle_fsm for its caller: the sequential composition of the statement slices above, all of which
    assume and re-establish the mid-condition (Hoare sequencing; no separate proof needed)"""
    c = C("__non_idle_fsm", instance="SEQUENCE", arg_types={**SELF, "packet": T.Opaque}, props=(), result=None,
          requires=[("MidCondition", lambda o: mid_condition(o.self))] + DEFAULT + [
              ("busy", lambda o: ne(o.self.states.state, IDLE)), ("admitted", _d_admitted)],
          modifies=DFSM_MOD, ensures=[Clause("mid_condition", lambda o, n, r: mid_condition(n.self), ())],
          raises=[
              RaiseClause("unretrieved", D.UnretrievedPdusToBeSent, modifies=[], iff=True,
                          when=lambda o: o.self._pdus_to_be_sent.length() > 0),
              RaiseClause("vfs.truncate_race", FileNotFoundError, when=lambda o: o.packet is not None and o.packet.cls is MetadataPdu,
                          modifies=DFSM_MOD),
          ],
          effects={"vfs", "user", "timer", "fault_cb"}, modular=True, trusted=True,
          notes="sequential composition of the slices of __non_idle_fsm")
    c.call_default = True
    c.assumed_requires = set(c.assumed_requires)
    return c


_dfsm_union()


def _dsm_setup(interp, roots):
    roots["packet"] = interp.fresh_value(ANY_PDU, "packet")
    p = roots["packet"]
    if p is not None and p.cls is MetadataPdu:
        for k in ("source_file_name", "dest_file_name"):
            p.f[k] = interp.force(p.f[k])


DEST_ADMISSION_EXC = [D.InvalidPduDirection, D.InvalidDestinationId, D.NoRemoteEntityCfgFound, D.InvalidPduForDestHandler,
                      D.PduIgnoredForDest]
DSM_MOD = sorted(set(DFSM_MOD + IDLE_MOD))

C("state_machine", arg_types={**SELF, "packet": T.Opaque}, setup=_dsm_setup, props=("C10", "C16", "C11", "C05"), result=T.Opaque,
  requires=[("MidCondition", lambda o: mid_condition(o.self))] + DEFAULT + [
      ("pdu_wf", lambda o: pdu_wf(o.packet)),
      ("names_together", lambda o: ((o.packet.dest_file_name is None) == (o.packet.source_file_name is None))
       if (o.packet is not None and o.packet.cls is MetadataPdu) else True),
      ("idle_handler_was_drained", lambda o: Implies_(eq(o.self.states.state, IDLE), qempty(o.self)))],
  modifies=DSM_MOD,
  cond_frames=[("C10.idle_call_without_packet_does_nothing", lambda o: And_(eq(o.self.states.state, IDLE), o.packet is None), [],
                {"silent": True})],
  ensures=[
      Clause("mid_condition", lambda o, n, r: mid_condition(n.self), ("C10", "C11")),
      Clause("C10.returns_states", lambda o, n, r: r.cls is D.FsmResult and r.states.oid == o.self.states.oid, ("C10",)),
  ],
  raises=[RaiseClause(f"C10.rejected_pdu_changes_nothing.{e.__name__}", e, when=lambda o: o.packet is not None, props=("C10",),
                      modifies=[], post=lambda o, n: len([e for e in n.trace if e["kind"] not in ("opaque_call", "vfs")]) == 0)
          for e in DEST_ADMISSION_EXC] + [
      RaiseClause("C10.unretrieved_truthful", D.UnretrievedPdusToBeSent, iff=True,
                  when=lambda o: And_(ne(o.self.states.state, IDLE), o.self._pdus_to_be_sent.length() > 0), props=("C10",), modifies=[]),
      RaiseClause("vfs.truncate_race", FileNotFoundError, when=lambda o: o.packet is not None and o.packet.cls is MetadataPdu,
                  props=("C10",), modifies=DSM_MOD),
  ],
  effects={"vfs", "user", "timer", "fault_cb"}, modular=False)
CONTRACTS[-1].contract_callees = {"DestHandler._check_inserted_packet", "DestHandler.__idle_fsm", "DestHandler.__non_idle_fsm"}
CONTRACTS[-1].cost_hint = 4


C("get_next_packet", arg_types=SELF, props=("C10",), result=T.Opaque,
  requires=REQ_INV, modifies=["self._pdus_to_be_sent", "self.states._num_packets_ready"],
  ensures=[
      Clause("C10.pops_one_or_none", lambda o, n, r: And_(
          Implies_(o.self._pdus_to_be_sent.length() == 0, And_(r is None, n.self._pdus_to_be_sent.length() == 0)),
          Implies_(o.self._pdus_to_be_sent.length() > 0, And_(
              r is not None, n.self._pdus_to_be_sent.length() == o.self._pdus_to_be_sent.length() - 1))), ("C10",)),
  ] + inv_clauses(("C10",)),
  effects=set(), modular=False)


# ---------------------------------------------------------------------------------------------- dispatch order
# The slices above prove each statement of __non_idle_fsm on its own; these ordered multi-statement slices prove that
# an inserted PDU is handed to its handler, and BEFORE the timer-driven procedure of the same step runs (C05: every
# accepted File Data PDU is applied; C13: late data is written before the re-verification of the check-limit step).
def _calls(n):
    return [e["callee"].rsplit(".", 1)[-1] for e in n.trace if e["kind"] == "opaque_call"]


def _dispatch_contract(label, sl, step, pkt_cls, first, then, props):
    def ordered(o, n, r):
        cs = _calls(n)
        if first not in cs:
            return False
        if then is not None and then in cs and cs.index(then) < cs.index(first):
            return False
        return True
    c = C("__non_idle_fsm", instance=label, arg_types={**SELF, "packet": T.Opaque}, props=props, result=None,
          setup=lambda interp, roots, pkt_cls=pkt_cls: roots.__setitem__("packet", interp.fresh_obj(pkt_cls, "packet")),
          requires=[("MidCondition", lambda o: mid_condition(o.self))] + DEFAULT + [
              ("busy", lambda o: ne(o.self.states.state, IDLE)), ("admitted", _d_admitted),
              ("step", lambda o, step=step: step_is(o.self, step)), ("queue_empty", lambda o: qempty(o.self))],
          modifies=DFSM_MOD,
          ensures=[Clause(f"dispatch.{first}_is_invoked_first", ordered, props)],
          raises=[RaiseClause("vfs.truncate_race", FileNotFoundError, when=lambda o: o.packet.cls is MetadataPdu, props=props, modifies=DFSM_MOD)],
          effects={"vfs", "user", "timer", "fault_cb"}, modular=True)
    c.contract_callees = set(DFSM_CALLEES)
    c.check_callee_pre = False   # (the callee preconditions are proved by the single-statement slices)
    c.slice = sl
    c.n_body_statements = 9
    c.call_default = False
    return c


_dispatch_contract("ORDER_CHECK_LIMIT_FD", ((0, 1, 2), 4), STEP.RECV_FILE_DATA_WITH_CHECK_LIMIT_HANDLING, _FD,
                   "_handle_fd_pdu", "_check_limit_handling", ("C05", "C13"))
_dispatch_contract("ORDER_RECEIVING_FD", ((0, 1), 2), STEP.RECEIVING_FILE_DATA, _FD, "_handle_fd_pdu", None, ("C05", "C02"))
_dispatch_contract("ORDER_RECEIVING_EOF", ((0, 1), 2), STEP.RECEIVING_FILE_DATA, EofPdu, "_handle_eof_pdu", None, ("C02", "C13"))
_dispatch_contract("ORDER_CHECK_LIMIT_EOF", ((0, 1), 2), STEP.RECV_FILE_DATA_WITH_CHECK_LIMIT_HANDLING, EofPdu, "_handle_eof_pdu", None, ("C13",))
_dispatch_contract("ORDER_MISSING_DATA_FD", ((0, 1), 5), STEP.WAITING_FOR_MISSING_DATA, _FD,
                   "_handle_fd_pdu", "_deferred_lost_segment_handling", ("C05", "C03", "C06"))
_dispatch_contract("ORDER_WAITING_FOR_METADATA", ((0, 1), 3), STEP.WAITING_FOR_METADATA, MetadataPdu,
                   "_handle_waiting_for_missing_metadata", "_deferred_lost_segment_handling", ("C03",))


# ---------------------------------------------------------------------------------------------- C01 frame
def _ck_guard_now(h):
    """the checksum guard evaluated on the current parameters: null checksum / metadata only, or the filestore checksum of
    the destination file over the progress equals the checksum announced by the EOF PDU"""
    p = h._params
    trivial = Or_(eq(p.checksum_type, ChecksumType.NULL_CHECKSUM), B(p.fp.metadata_only))
    match = opt(p.fp.crc32, lambda c: Eq_(fs_checksum(FS0, to_z3_int(p.checksum_type), p.fp.file_name.p, to_z3_int(p.fp.progress)), c.b)
                if isinstance(c, SBytes) and c.b is not None else False, False)
    return Or_(trivial, match)


def _c01_frame(o, n, r):
    """nobody but the checksum verification manufactures DATA_COMPLETE (D10)"""
    return Implies_(And_(ne(n.self.states.state, IDLE), eq(_fpar(n.self).delivery_code, DeliveryCode.DATA_COMPLETE)),
                    Or_(And_(n.self._params.oid == o.self._params.oid, eq(_fpar(o.self).delivery_code, DeliveryCode.DATA_COMPLETE)),
                        _ck_guard_now(n.self)))


for _c in CONTRACTS:
    if _c.fq.startswith(P) and not _c.trusted and not _c.fq.endswith("_checksum_verify") and "self" in _c.arg_types \
            and not _c.fq.endswith(".state_machine") \
            and not any(cl.label == "C01.data_complete_only_under_checksum_guard" for cl in _c.ensures):
        _c.ensures.append(Clause("C01.data_complete_only_under_checksum_guard", _c01_frame, ("C01",)))
