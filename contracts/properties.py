"""Which obligations decide which property.

A property's check verifies every contract that carries the property's id (on the contract or on one of its clauses) and
counts exactly the obligations tagged with that id (post/raises clauses by their own tags; safety, frame, effect,
pre-of-callee and loop obligations by the tags of the contract they belong to)."""

TECH = ("contract-based deductive verification: VCs generated from the real Python AST by symbolic execution against sidecar "
        "contracts, discharged by z3/cvc5")
STUBS = "stubs/cfdp.py: assumed contracts of spacepackets PDU classes, Countdown, TLVs, abstract VirtualFilestore, user callbacks"
ENV = ("environment assumptions: PDUs are well-formed library objects; timers do not expire within one handler call; the filestore "
       "does not reject a write to the file it created for the transaction when the handler is summarised by contract (EA-1); "
       "remote configurations satisfy limits >= 1 and max_packet_len >= 64 (finding F11 excluded)")


def P(level, text, note, explanation, assumptions=(), trusted=(), bounded=()):
    return {"level": level, "level_text": text, "level_note": note, "explanation": explanation,
            "assumptions": list(assumptions), "trusted_base": list(trusted), "bounded": list(bounded)}


PROPERTIES = {
    "C04": P("proof",
             "Every timer-driven retry step of both handlers (EOF awaiting ACK, Finished awaiting ACK, deferred NAK sequences) is proved "
             "against pre/post contracts over the real code for all limits N >= 1 and all counter values allowed by the inductive handler "
             "invariant: no expiry = no-op, expiry below the limit = re-send + counter+1 + timer restart, expiry at the limit = the limit "
             "fault (exactly then), progress resets the counter, a limit fault during the cancel exchange abandons the transaction.",
             "Per-step Hoare triples; 'exactly the N-th consecutive expiry' follows from the counter invariant 0 <= counter < limit plus "
             "these triples (induction over expiries is the standard argument, not a separate obligation). Time is an oracle boolean per "
             "timed_out() call. " + ENV,
             "Source: _handle_positive_ack_procedures, _handle_waiting_for_ack, _notice_of_cancellation, _declare_fault, _handle_eof_sent. "
             "Dest: _handle_positive_ack_procedures, _handle_waiting_for_finished_ack, _handle_finished_pdu_sent, "
             "_deferred_lost_segment_handling, _reset_nak_activity_parameters, _handle_waiting_for_missing_metadata, "
             "_start_deferred_lost_segment_handling.", [STUBS, ENV], [STUBS]),
    "C05": P("proof",
             "Every filestore effect of the destination handler is proved, per function and for all PDUs/states allowed by the invariant, "
             "to address the resolved destination path: Metadata resolves the path (directory rule) and creates or truncates exactly that "
             "file; a File Data PDU causes exactly one write_data(dest, data, offset) and nothing else; File Data/EOF before Metadata touch "
             "no file; deletion happens only of the destination file and only on cancel with disposition; every statement slice of the "
             "dispatcher mutates only that path.",
             "Equality of the file content with the write-model over a whole history is the induction over these per-call effect contracts "
             "together with the ASSUMED contract of VirtualFilestore.write_data (zero-fill of gaps); the induction itself is not a generated "
             "obligation. " + ENV,
             "Dest: _init_vfs_handling, _handle_metadata_packet, _handle_fd_pdu, _handle_fd_without_previous_metadata, "
             "_handle_eof_without_previous_metadata, _handle_eof_pdu, _checksum_verify, _notice_of_completion, "
             "_handle_transfer_completion, __idle_fsm, __non_idle_fsm (8 slices), state_machine.", [STUBS, ENV], [STUBS]),
    "C06": P("other",
             "Per emission site the NAK contents are proved for all offsets, sizes and tracker states: immediate NAK = exactly the detected "
             "gap inside scope (0, offset+len); metadata request only while metadata is missing; deferred sequence = ([(0,0)] if metadata "
             "missing) ++ tracked ranges in ascending order, split into PDUs of at most max-requests each of which fits max_packet_len, "
             "scope (0, EOF size); nothing missing => no NAK and completion. The tracker view is maintained exactly by every handler "
             "function (gap recorded, re-received segment removed, tail gap at EOF, coalescing keeps the set).",
             "Level 'other' because the completeness half ('the tracker view equals the set of bytes not yet stored') needs a ghost set of "
             "stored bytes across calls; it is carried by the per-function view contracts above plus C18, not by a single discharged "
             "invariant. No open finding (F10, F13, F13b, F13c, F21 repaired). " + ENV,
             "Dest: _lost_segment_handling, _handle_fd_pdu, _handle_eof_pdu, _handle_fd_without_previous_metadata, "
             "_handle_eof_without_previous_metadata, _handle_waiting_for_missing_metadata, _start_deferred_lost_segment_handling, "
             "_deferred_lost_segment_handling (loop invariant + per-iteration obligations), _fsm_advancement_after_packets_were_sent; "
             "spacepackets get_max_seg_reqs_for_max_packet_size_and_pdu_cfg and PduConfig.header_len are executed from their real source.",
             [STUBS, ENV], [STUBS]),
    "C07": P("proof",
             "For all file sizes, segment lengths, id widths, flags and modes: the Metadata PDU carries the request's names, the filestore "
             "size, checksum type and closure flag; each state-machine call emits at most one File Data PDU which is the next tile "
             "[progress, progress+min(segment_len, remaining)) read through the filestore; the EOF is queued only when progress == file "
             "size with size and checksum of the file; every PDU carries the transaction's header fields; segment length = min(configured, "
             "derived) and a full segment fits max_packet_len.",
             "Tiling of [0, size) is the induction over the proved per-call tile contract and the invariant 0 <= progress <= size; "
             "'serialises to a parsable PDU' is outside (spacepackets pack/unpack is not verified). " + ENV,
             "Source: _transaction_start (with _prepare_file_params, _prepare_pdu_conf, _get_next_transfer_seq_num, "
             "_calculate_max_file_seg_len), _prepare_metadata_pdu, _sending_file_data_fsm, _prepare_progressing_file_data_pdu, "
             "_prepare_file_data_pdu, _fsm_advancement_after_packets_were_sent, _prepare_eof_pdu, _handle_wait_for_finish (ACK of "
             "Finished); spacepackets get_max_file_seg_len_for_max_packet_len_and_pdu_cfg executed from its real source.",
             [STUBS, ENV], [STUBS]),
    "C08": P("proof",
             "For every NAK and every segment request (symbolic start/end, any number of requests): (0,0) re-sends the Metadata PDU; a "
             "valid range is tiled by File Data PDUs (loop invariant current_offset + remaining == end, per-iteration obligation: one PDU "
             "at current_offset of length 1..segment_len, variant remaining); inverted or beyond-progress requests raise InvalidNakPdu "
             "with nothing emitted for that request; progress, EOF condition and file size are untouched; the step to resume is recorded "
             "and restored exactly.",
             "Requests of one NAK that precede an invalid request have already been queued when the exception is raised (allowed by the "
             "property's wording). " + ENV,
             "Source: _handle_segment_req, __handle_retransmission, _prepare_file_data_pdu, _prepare_metadata_pdu, "
             "_fsm_advancement_after_packets_were_sent, dispatch in _sending_file_data_fsm / _handle_waiting_for_ack / "
             "_handle_wait_for_finish.", [STUBS, ENV], [STUBS]),
    "C10": P("proof",
             "Both public state machines, put/cancel requests and get_next_packet are proved to end only normally or with a declared "
             "protocol exception, for every PDU kind and every state satisfying the (proved inductive) handler invariants; every private "
             "callee's precondition is proved at its call site; a PDU rejected by the admission check modifies nothing; "
             "UnretrievedPdusToBeSent only if the queue was non-empty at entry.",
             "FileNotFoundError from a filestore race is treated as the filestore's documented exception. Default fault handler table as "
             "the property says (with ABANDON configured for a receiver-side fault the open finding F5c applies: see C14). The findings "
             "F13b/F13c/F21/F5a/F5b that this check had reported are repaired in /repo. " + ENV,
             "Source: __init__, state_machine, _fsm_non_idle (one instance per step), _check_inserted_packet and all their callees. Dest: "
             "__init__, state_machine, __idle_fsm, __non_idle_fsm (8 statement slices with a common mid-condition), "
             "_check_inserted_packet and all their callees.", [STUBS, ENV], [STUBS]),
    "C11": P("proof",
             "Fresh-state invariant: the source invariant states that before a transaction starts every per-transaction field has its "
             "constructor value and it is proved for every path that ends a transaction; the destination's reset/start paths are proved "
             "to install a NEW parameter block, tracker and finished-params object with constructor values (dataclass default objects "
             "are modelled as process-wide singletons, so a shared default fails).",
             "Sufficient condition for the 2-safety statement: equivalence is up to what the contracts observe (PDUs, indications, "
             "filestore calls, public state). " + ENV,
             "Dest: __init__ (base case: the constructor establishes the invariant and the fresh state), _reset_internal, __idle_fsm, "
             "_handle_waiting_for_finished_ack, _handle_finished_pdu_sent, state_machine. Source: __init__, _reset_internal, "
             "_notice_of_completion, state_machine (invariant S9).", [STUBS, ENV], [STUBS]),
    "C12": P("proof",
             "cancel_request of both handlers: returns true iff busy with that transaction id; a refused request changes nothing; sender: "
             "exactly one EOF(Cancel Request Received) with size = progress and the filestore checksum of that prefix, then EOF-ACK wait "
             "or idle; receiver: CANCELED, condition code, local entity as fault location, completion step; EOF (cancel) handling - "
             "with or without the Metadata PDU - reported condition and disposition-on-cancellation deletion are proved per function; no "
             "NAK procedure is started for a transaction cancelled by an EOF (cancel).",
             "The findings F2, F8b, F12, F18, F22 and F16 that this check had reported are repaired in /repo. " + ENV,
             "Source: cancel_request, _notice_of_cancellation, _handle_positive_ack_procedures (re-sent EOF). Dest: cancel_request, "
             "_handle_eof_pdu, _handle_eof_without_previous_metadata, _notice_of_completion, _handle_transfer_completion, "
             "_prepare_finished_pdu, _fsm_advancement_after_packets_were_sent and _deferred_lost_segment_handling (cancel condition is "
             "never overwritten).",
             [STUBS, ENV], [STUBS]),
    "C13": P("proof",
             "Receiver: an EOF whose checksum does not match yet defers completion (check-limit step, count 0, fresh timer, no finished "
             "indication); each expiry re-verifies; success completes with DATA_COMPLETE; Check Limit Reached is declared exactly when "
             "count+1 >= limit; below the limit count+1 and timer restart. Sender: closure arms the check timer, its expiry without a "
             "Finished PDU cancels with Check Limit Reached.",
             ENV, "Dest: _handle_eof_pdu, _check_limit_handling, _checksum_verify. Source: _handle_eof_sent, _handle_wait_for_finish; mib "
             "defaults (checksum failure ignored).", [STUBS, ENV], [STUBS]),
    "C14": P("other",
             "The table API (construction, get_fault_handler, set_handler, report_fault) is proved against a finite-map model for every "
             "condition and handler code; both _declare_fault implementations are proved, case-split on the configured code, to invoke "
             "exactly one callback of that kind with (transaction id, condition, progress at declaration) and to have the configured "
             "effect; each declaration site is proved to declare the right condition.",
             "Level 'other' only because of the open finding F5c (the destination keeps using the parameter block after a fault configured "
             "as ABANDON), reported as KNOWN-FINDING; the destination's declaration sites are proved for the default table. The sender's "
             "abandon during the cancel exchange is C04's rule. " + ENV,
             "mib.DefaultFaultHandlerBase.{__init__, get_fault_handler, set_handler, report_fault}; source/dest _declare_fault; "
             "declaration sites.", [STUBS, ENV], [STUBS]),
    "C15": P("proof",
             "Each indication call site is proved to be issued iff its switch is on, with parameters equal to the facts (transaction id of "
             "the PDUs, offset/length of the File Data PDU, names/size/messages of the Metadata PDU via a loop invariant over the option "
             "list, the live finished-params object that the Finished PDU carries, originating id unless a proxy put response is present "
             "via a loop invariant over the message list).",
             "Causal order is per call site (each indication is issued by the function handling the corresponding event); TLV lists are "
             "abstract (kind, identity) sequences. " + ENV,
             "Source: _transaction_start, _check_for_originating_id, _prepare_eof_pdu, _notice_of_completion. Dest: "
             "_handle_metadata_packet, _handle_fd_pdu, _handle_eof_pdu, _handle_eof_without_previous_metadata, _notice_of_completion, "
             "_handle_transfer_completion, _prepare_finished_pdu.", [STUBS, ENV], [STUBS]),
    "C16": P("proof",
             "Effect typing: every path of every verified handler function has effects within {filestore object, user callbacks, "
             "timers, fault callbacks, sequence number provider}; builtins open() and every pathlib method that consults the host file "
             "system carry effect hostfs, which no handler contract allows.",
             "Relative to the effect annotations of the stubs (complete list of pathlib methods in stubs/cfdp.py); the parametricity "
             "corollary (an in-memory filestore behaves like the native one) is an argument over these effect contracts.",
             "All contracts of cfdppy.handler.source and cfdppy.handler.dest (effects= declared on each).", [STUBS], [STUBS]),
    "C18": P("proof",
             "Every method of LostSegmentTracker is proved, for all well-formed tracker states, offsets and range counts (no bound), to "
             "refine the exact interval set of the property; the invariant is inductive so it covers every operation history.",
             "Relative to pyvc's encoding of Python ints/dicts/tuples (dict(sorted(...)), dict(pairs), update/pop/get axioms), z3/cvc5, and "
             "the triggered view-predicate axiomatisation; removal ranges outside the property's precondition are proved to keep the "
             "representation well-formed and never to add bytes.",
             "Every LostSegmentTracker method is verified against the abstract interval-set view and the representation invariant; loops "
             "are cut at inductive invariants.",
             ["dict model: finite map + insertion order; dict(list_of_pairs) axioms in stubs/builtins_.py"], []),
    "C19": P("proof",
             "put_request: accepted iff idle; a busy handler returns False and nothing at all changes (conditional frame); missing source "
             "file / unknown destination raise the documented error with the handler idle; mode and closure come from the request when "
             "given, else from the remote configuration (all combinations symbolic); segment length = min(configured, derived from "
             "max_packet_len); exactly one get_and_increment() per transaction start and its value is the sequence number.",
             "Freshness of transaction ids across transactions relies on the ASSUMED provider contract (consecutive values). " + ENV,
             "Source: put_request (+_setup_transmission_params inlined), _transaction_start, _get_next_transfer_seq_num, "
             "_calculate_max_file_seg_len, _prepare_file_params.", [STUBS, ENV], [STUBS]),
    "C20": P("proof",
             "The routing helper is proved against the property's table for a symbolic PDU of each of the eight kinds with symbolic "
             "direction flag, mode, id widths/values and CRC flag; both admission checks are proved to refuse every PDU routed to the "
             "other side and to say 'wrong handler' only for such PDUs; the inactive-EOF helper is proved field by field.",
             "Relative to the assumed PDU object model of spacepackets; PDUs are symbolic objects, not byte strings.",
             "get_packet_destination, SourceHandler._check_inserted_packet, DestHandler._check_inserted_packet, "
             "acknowledge_inactive_eof_pdu.", [STUBS], [STUBS]),
}

PROPERTIES["C09"] = P(
    "proof",
    "NativeFilestore.calculate_checksum / verify_checksum and crc.calc_modular_checksum are proved over byte SEQUENCES for every file "
    "content, prefix length >= 0 and chunk length >= 1: null type = four zero bytes; CRC types = CRC_t(content[0:min(size,len)]) via the "
    "loop invariant 'bytes fed == content[0:min(offset,len)]' (variant size-offset); modular type = u32_be(sum of zero-padded "
    "big-endian words of the prefix mod 2^32) via a recursive spec function; the result does not mention the chunk length; verify is "
    "true iff equal; the sender's EOF checksum is the filestore checksum of the prefix it announces (source contracts).",
    "Relative to the ASSUMED streaming contract of crcmod (update(a);update(b) == update(a+b), digest = CRC_name(bytes fed)) and of "
    "struct.pack/int.from_bytes/ljust, which are only tested boundedly against bit-serial reference CRCs (listed under "
    "bounded_standins, never counted): that a table entry of crcmod is right is NOT proved. Byte-sequence obligations are discharged by "
    "cvc5 (--strings-exp) or the z3 binary.",
    "filestore.NativeFilestore.{calculate_checksum, _generate_crc_calculator, _verify_checksum, checksum_type_to_crcmod_str, "
    "read_from_opened_file}, VirtualFilestore.verify_checksum, crc.calc_modular_checksum; source _checksum_calculation, cancel/EOF "
    "contracts (clauses tagged C09).",
    [STUBS, "stubs/oslib.py: host file system model and crcmod/struct axioms"], ["stubs/oslib.py"])
PROPERTIES["C09"]["conformance"] = ["crc"]

PROPERTIES["C17"] = P(
    "proof",
    "Each NativeFilestore operation (create, delete, rename, replace, create/remove directory, truncate, write at offset, read at "
    "offset, size, exists, is-directory) is proved, for all paths, contents, offsets and payloads, against a reference model over "
    "kind/content maps: the status code is exactly the one of the case that holds, success implies the effect, any refusal or "
    "exception leaves every path unchanged, a write is read back identically, bytes before the offset and behind the data are kept, a "
    "gap reads as zero, no other path changes.",
    "Relative to the POSIX axioms of stubs/oslib.py (exception class per failed precondition, rename overwrites silently, zero fill), "
    "cross-checked boundedly in a scratch directory (bounded_standins). Operation SEQUENCES follow by induction over the per-operation "
    "contracts (each is total over the model state). list_directory is not verified.",
    "filestore.NativeFilestore.{create_file, delete_file, rename_file, replace_file, create_directory, remove_directory, truncate_file, "
    "write_data, read_data, file_size, file_exists, is_directory}.",
    ["stubs/oslib.py: host file system model (kind/content/parent), tree well-formedness"], ["stubs/oslib.py"])
PROPERTIES["C17"]["conformance"] = ["os"]
for _p in ("C10", "C20", "C07"):
    PROPERTIES[_p]["conformance"] = ["pdu"]

PROPERTIES["C01"] = P(
    "other",
    "The local obligations that C01 factors into are proved per function for all inputs: (a) _checksum_verify returns true iff the "
    "checksum is trivial (null / metadata only) or the filestore checksum of the destination file over `progress` equals the EOF "
    "checksum, and sets DATA_COMPLETE/NO_ERROR exactly then; (b) frame: no other destination function turns the delivery code into "
    "DATA_COMPLETE unless that guard holds on its post-state; (c) a File Data PDU advances `progress` to at least its end, a rejected "
    "write does not; the EOF fields are stored as received; the checksum type comes from the Metadata PDU; (d) the indication and the "
    "Finished PDU carry the live finished-params object; (e) the sender's EOF carries size = progress and the filestore checksum of "
    "that prefix, only after all data was sent; (f) the sender relays exactly the received finished params; for the null/modular "
    "types in acknowledged mode the lost-range bookkeeping is exact (C06/C18 clauses tagged C01).",
    "Level 'other': the composition 'equal checksum over the whole file => identical or a genuine collision' under the channel model "
    "(EOF and Metadata fields arrive intact or not at all, bit flips hit File Data payloads only) is a paper argument in DESIGN.md "
    "section 7, not a discharged obligation; the abstract VirtualFilestore contract is assumed. " + ENV,
    "Dest: _checksum_verify, every DestHandler function (frame clause), _handle_fd_pdu, _handle_eof_pdu, "
    "_handle_eof_without_previous_metadata, _handle_metadata_packet, _fsm_advancement_after_packets_were_sent, "
    "_deferred_lost_segment_handling, _lost_segment_handling. Source: _handle_wait_for_finish, _notice_of_completion, EOF contracts.",
    [STUBS, ENV, "channel model of C01 (paper)"], [STUBS])

PROPERTIES["C02"] = P(
    "other",
    "The step contracts that a fault-free run chains are proved per function: sender IDLE->metadata->file data (one tile per call)->"
    "EOF->(ack wait | finished wait | completion)->idle with exactly one finished indication; receiver first packet->reception (file "
    "created/truncated at the resolved path)->in-order File Data (no NAK, one write)->EOF with matching checksum->completion path per "
    "mode->Finished PDU->idle; no fault callback and no exception on these paths (clauses tagged C02).",
    "Level 'other': the chaining of the step contracts over the two handlers and a perfect link into 'every run completes' is an "
    "argument over these contracts (a finite chain of enabled steps), not a discharged obligation; pacing independence rests on the "
    "no-op contracts of the waiting steps. " + ENV,
    "All step functions of both handlers (clauses tagged C02).", [STUBS, ENV, "perfect link (paper)"], [STUBS])

PROPERTIES["C03"] = P(
    "other",
    "Necessary local conditions of recovery are proved: every retry timer re-arms and re-sends until its limit (C04 clauses); a "
    "started deferred procedure stays in a step that services it (step invariant; late Metadata continues in WAITING_FOR_MISSING_DATA); "
    "NAK rounds request the tracked ranges and received retransmissions shrink them exactly (C06/C18 clauses); the EOF before Metadata "
    "stores size and checksum and is acknowledged; duplicates are absorbed.",
    "Level 'other': 'with at most K faults and limits > K the file is eventually delivered' is a liveness statement about schedules of "
    "two composed state machines; contracts decide the mechanisms it relies on, the pigeonhole argument over rounds is on paper. A PASS "
    "means every such mechanism meets its contract, not that C03 is proved. One open finding is pinned to a clause of this check and "
    "reported as KNOWN-FINDING: F26 (a lost ACK(EOF) is not recovered because a re-sent EOF PDU is never acknowledged again). " + ENV,
    "Clauses tagged C03 in both handlers.", [STUBS, ENV, "fault model and fairness (paper)"], [STUBS])

NOT_APPLICABLE = {}
