"""Which functions (under contract) and lemmas decide which property."""
T_ = "cfdppy.handler.dest.LostSegmentTracker."

PROPERTIES = {
    "C18": {
        "level": "proof",
        "level_text": "Every method of LostSegmentTracker is proved, for all well-formed tracker states, offsets and range counts "
                      "(no bound), to refine the exact interval set of the property; the invariant is inductive so it covers every operation history.",
        "level_note": "Relative to pyvc's encoding of Python ints/dicts/tuples (dict(sorted(...)), dict(pairs), update/pop/get axioms), z3/cvc5, "
                      "and the triggered view-predicate axiomatisation; removal ranges outside the property's precondition (covering more than one tracked range) are outside the contract.",
        "explanation": "Every LostSegmentTracker method is verified against the abstract interval-set view "
                       "(view(x) <=> some range [k, d[k]) contains x) and the representation invariant "
                       "(non-empty, disjoint, ascending): exact union/difference, coalescing keeps the set and "
                       "leaves no adjacent ranges, return value <=> change, straddling removal refused unchanged. "
                       "Loops are cut at inductive invariants; no bound on offsets, number of ranges or history "
                       "(the invariant quantifies over all well-formed states).",
        "assumptions": ["dict model: finite map + insertion order (DESIGN 3.2); dict(list_of_pairs) axioms in stubs/builtins_.py"],
        "trusted_base": [],
    },
}

NOT_APPLICABLE = {}
