"""Which functions (under contract) and lemmas decide which property."""
T_ = "cfdppy.handler.dest.LostSegmentTracker."

PROPERTIES = {
    "C18": {
        "level": "proof",
        "level_text": "Every method of LostSegmentTracker is proved, for all well-formed tracker states, offsets and range counts "
                      "(no bound), to refine the exact interval set of the property; the invariant is inductive so it covers every operation history.",
        "level_note": "Relative to pyvc's encoding of Python ints/dicts/tuples (dict(sorted(...)), dict(pairs), update/pop/get axioms), z3/cvc5, "
                      "and the triggered view-predicate axiomatisation; removal ranges outside the property's precondition (covering more than one tracked range) are outside the contract.",
        "explanation": "Every LostSegmentTracker method is verified against the abstract interval-set view "
                       "(view(x) <=> some range [k, d[k]) contains x) and the representation invariant "
                       "(non-empty, disjoint, ascending): exact union/difference, coalescing keeps the set and "
                       "leaves no adjacent ranges, return value <=> change, straddling removal refused unchanged. "
                       "Loops are cut at inductive invariants; no bound on offsets, number of ranges or history "
                       "(the invariant quantifies over all well-formed states).",
        "assumptions": ["dict model: finite map + insertion order (DESIGN 3.2); dict(list_of_pairs) axioms in stubs/builtins_.py"],
        "trusted_base": [],
    },
}


PROPERTIES["C20"] = {
    "level": "proof",
    "level_text": "The routing helper is proved against the property's table for a symbolic PDU of each of the eight kinds "
                  "with symbolic direction flag, mode, id widths/values and CRC flag (finite kind space case-split, everything "
                  "else unbounded); both admission checks are proved to refuse every PDU routed to the other side and to say "
                  "'wrong handler' only for such PDUs; the inactive-EOF helper is proved field by field.",
    "level_note": "Relative to the assumed PDU object model of spacepackets (stubs/cfdp.py: fields, pdu_type/directive_type, "
                  "PduHolder casts; ACK acked-directive in {EOF, Finished}). PDUs are symbolic objects, not byte strings: "
                  "unpacking is outside the verified code.",
    "explanation": "get_packet_destination, SourceHandler._check_inserted_packet, DestHandler._check_inserted_packet "
                   "(incl. _handle_first_packet_not_metadata_pdu inlined) and acknowledge_inactive_eof_pdu are executed "
                   "symbolically for every PDU kind; each raise site must be allowed by a raises-clause, each normal "
                   "return must satisfy 'not routed to the other side'.",
    "assumptions": ["spacepackets PDU classes behave as the stub model (direction/ids/mode are plain header fields; "
                    "FileDataPdu has no directive_type)"],
    "trusted_base": ["stubs/cfdp.py PDU object model"],
}

NOT_APPLICABLE = {}
