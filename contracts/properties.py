"""Which functions (under contract) and lemmas decide which property."""
T_ = "cfdppy.handler.dest.LostSegmentTracker."

PROPERTIES = {
    "C18": {
        "level": "proof",
        "functions": [T_ + "reset", T_ + "num_lost_segments", T_ + "add_lost_segment",
                      T_ + "remove_lost_segment", T_ + "coalesce_lost_segments"],
        "explanation": "Every LostSegmentTracker method is verified against the abstract interval-set view "
                       "(view(x) <=> some range [k, d[k]) contains x) and the representation invariant "
                       "(non-empty, disjoint, ascending): exact union/difference, coalescing keeps the set and "
                       "leaves no adjacent ranges, return value <=> change, straddling removal refused unchanged. "
                       "Loops are cut at inductive invariants; no bound on offsets, number of ranges or history "
                       "(the invariant quantifies over all well-formed states).",
        "assumptions": ["dict model: finite map + insertion order (DESIGN 3.2); dict(list_of_pairs) axioms in stubs/builtins_.py"],
        "trusted_base": [],
    },
}
