"""Shared vocabulary of the handler contracts: enum shortcuts, formula helpers, configuration
invariants, trace queries."""
from __future__ import annotations

import z3

from spacepackets.cfdp import (
    ChecksumType, ConditionCode, CrcFlag, Direction, FaultHandlerCode, LargeFileFlag, PduType, TransmissionMode,
)
from spacepackets.cfdp.pdu import (
    AckPdu, DirectiveType, EofPdu, FileDataPdu, FinishedPdu, KeepAlivePdu, MetadataPdu, NakPdu, PromptPdu,
    TransactionStatus,
)
from spacepackets.cfdp.pdu.finished import DeliveryCode, FileStatus

from cfdppy.defs import CfdpState

from pyvc.core import isnone, val
from pyvc.values import And_, Eq_, Implies_, Ite_, Not_, Or_, SEnum, SObj, SOpt, to_z3_bool, to_z3_int

ACK = TransmissionMode.ACKNOWLEDGED
UNACK = TransmissionMode.UNACKNOWLEDGED
CC = ConditionCode
FH = FaultHandlerCode

FAULT_CONDITIONS = [
    CC.CANCEL_REQUEST_RECEIVED, CC.POSITIVE_ACK_LIMIT_REACHED, CC.KEEP_ALIVE_LIMIT_REACHED, CC.INVALID_TRANSMISSION_MODE,
    CC.FILE_CHECKSUM_FAILURE, CC.FILE_SIZE_ERROR, CC.FILESTORE_REJECTION, CC.NAK_LIMIT_REACHED, CC.INACTIVITY_DETECTED,
    CC.CHECK_LIMIT_REACHED, CC.UNSUPPORTED_CHECKSUM_TYPE,
]
DEFAULT_TABLE = {c: FH.NOTICE_OF_CANCELLATION for c in FAULT_CONDITIONS}
DEFAULT_TABLE[CC.FILE_CHECKSUM_FAILURE] = FH.IGNORE_ERROR
DEFAULT_TABLE[CC.UNSUPPORTED_CHECKSUM_TYPE] = FH.IGNORE_ERROR


def eq(a, b):
    return Eq_(a, b)


def ne(a, b):
    return Not_(Eq_(a, b))


def iff(a, b):
    return to_z3_bool(a) == to_z3_bool(b)


def one_of(x, members):
    return Or_(*[Eq_(x, m) for m in members])


def B(x):
    """truthiness of a bool-valued field"""
    return x if isinstance(x, bool) else to_z3_bool(x)


def table_of(h):
    """the fault-handler table of a handler: SDict condition -> handler code"""
    return h.cfg.default_fault_handlers._handler_dict.d


def table_inv(d):
    """quantifier-free table invariant used by the handler contracts: the 11 applicable conditions are
    present (and NO_ERROR / the non-fault codes are absent); every entry is a handler code."""
    absent = [c for c in CC if c not in FAULT_CONDITIONS]
    return z3.And(
        *[d.dom[int(c)] for c in FAULT_CONDITIONS],
        *[z3.Not(d.dom[int(c)]) for c in absent],
        *[z3.Or(*[d.val[int(c)] == int(f) for f in FH]) for c in FAULT_CONDITIONS],
    )


def table_inv_exact(d):
    """the table has exactly the 11 applicable conditions (quantified form, used for the mib contracts)"""
    k = z3.Int("ti!k")
    return z3.And(
        d.wf(),
        z3.ForAll([k], d.dom[k] == z3.Or(*[k == int(c) for c in FAULT_CONDITIONS])),
        *[z3.Or(*[d.val[int(c)] == int(f) for f in FH]) for c in FAULT_CONDITIONS],
    )


def table_is_default(d):
    return z3.And(*[d.val[int(c)] == int(f) for c, f in DEFAULT_TABLE.items()])


def handler_for(d, cond):
    return d.val[to_z3_int(cond)]


def remote_cfg_inv(rc):
    """valid remote configuration: limits >= 1, id widths of a CFDP entity id"""
    return z3.And(
        rc.positive_ack_timer_expiration_limit >= 1, rc.nak_timer_expiration_limit >= 1, rc.check_limit >= 1,
        # F11 (degenerate configurations) excluded: every fixed-size PDU and a NAK with one segment request fit
        rc.max_packet_len >= 64,
        z3.Or(*[rc.entity_id.byte_len == k for k in (1, 2, 4, 8)]), rc.entity_id.value >= 0,
    )


def ubf_inv(u):
    return z3.And(z3.Or(*[u.byte_len == k for k in (1, 2, 4, 8)]), u.value >= 0)


# ---------------------------------------------------------------- trace queries (path-concrete lists)
def events(I, kind, since=0, **match):
    out = []
    for e in I.ctx.trace[since:]:
        if e["kind"] != kind:
            continue
        if all(e.get(k) == v for k, v in match.items()):
            out.append(e)
    return out


def pdus(I, cls=None, since=0):
    return [e["pdu"] for e in I.ctx.trace[since:] if e["kind"] == "pdu" and (cls is None or e["pdu"].cls is cls)]
