"""C20: PDU routing (handler/common.py), destination-side admission and the inactive-EOF acknowledgement."""
from __future__ import annotations

import z3

import cfdppy.handler.dest as D
from cfdppy.handler.common import PacketDestination
from cfdppy.handler.dest import DestHandler
from cfdppy import exceptions as X
from spacepackets.cfdp import Direction, TransmissionMode
from spacepackets.cfdp.pdu import EofPdu, FileDataPdu, MetadataPdu, TransactionStatus

from pyvc.core import T, isnone, val
from pyvc.spec import Clause, Contract, RaiseClause
from pyvc.values import And_, Eq_, Implies_, Not_, Or_

from .common import (
    ACK, UNACK, CC, AckPdu, DirectiveType, FinishedPdu, KeepAlivePdu, NakPdu, PromptPdu, CfdpState, eq, ne, one_of,
)
from .dest import REQ_INV, SELF, pdu_wf, mode
from .source import _routed_to_dest
from stubs.cfdp import PDU_CLASSES, cfg_known
from pyvc.values import to_z3_int

CONTRACTS = []
IDLE = CfdpState.IDLE


def _any_pdu(interp, roots):
    roots["packet"] = interp.fresh_value(T.OneOf(PDU_CLASSES), "packet")


def _dest(r):
    return r is PacketDestination.DEST_HANDLER if not hasattr(r, "e") else Eq_(r, PacketDestination.DEST_HANDLER)


CONTRACTS.append(Contract(
    "cfdppy.handler.common.get_packet_destination", arg_types={"packet": T.Opaque}, setup=_any_pdu, props=("C20",),
    result=T.Enum(PacketDestination), modifies=[],
    requires=[("pdu_wf", lambda o: pdu_wf(o.packet))],
    ensures=[
        # the table of the property, for every PDU configuration (direction flag, mode, id widths, CRC flag symbolic)
        Clause("C20.routing_table", lambda o, n, r: And_(
            Implies_(_routed_to_dest(o.packet), Eq_(r, PacketDestination.DEST_HANDLER)),
            Implies_(Not_(_routed_to_dest(o.packet)), Eq_(r, PacketDestination.SOURCE_HANDLER))), ("C20",)),
        Clause("C20.pure", lambda o, n, r: len(n.trace) == 0, ("C20",)),
    ],
    effects=set(), modular=False))


# ---------------------------------------------------------------------------------------------- dest admission
DEST_PROTOCOL_EXC = (X.InvalidPduDirection, X.InvalidDestinationId, X.NoRemoteEntityCfgFound, X.PduIgnoredForDest)

CONTRACTS.append(Contract(
    "cfdppy.handler.dest.DestHandler._check_inserted_packet", arg_types={**SELF, "packet": T.Opaque}, setup=_any_pdu,
    props=("C20", "C10"), result=None, modifies=[],
    requires=REQ_INV + [("pdu_wf", lambda o: pdu_wf(o.packet))],
    ensures=[
        Clause("C20.other_side_always_refused", lambda o, n, r: _routed_to_dest(o.packet), ("C20",)),
        Clause("C10.admitted_pdu_is_for_this_entity", lambda o, n, r: And_(
            eq(o.packet.pdu_conf.direction, Direction.TOWARDS_RECEIVER),
            Eq_(o.packet.pdu_conf.dest_entity_id.value, o.self.cfg.local_entity_id.value),
            # a transaction is only ever opened by Metadata (any mode) or by File Data / EOF in acknowledged mode
            Implies_(eq(o.self.states.state, IDLE), Or_(
                o.packet.cls is MetadataPdu,
                And_(o.packet.cls in (FileDataPdu, EofPdu), eq(o.packet.pdu_conf.trans_mode, ACK)))),
            Implies_(And_(ne(o.self.states.state, IDLE), eq(mode(o.self), UNACK)), o.packet.cls not in (AckPdu, PromptPdu))),
            ("C10", "C20")),
        Clause("C10.silent", lambda o, n, r: len([e for e in n.trace if e["kind"] != "vfs"]) == 0, ("C10",)),
        Clause("C10.sender_has_a_remote_configuration", lambda o, n, r: cfg_known(to_z3_int(o.packet.pdu_conf.source_entity_id.value)), ("C10",)),
    ],
    raises=[RaiseClause("C20.wrong_handler_only_for_other_side", X.InvalidPduForDestHandler,
                        when=lambda o: Not_(_routed_to_dest(o.packet)), props=("C20", "C10"), modifies=[])]
    + [RaiseClause(f"C10.protocol_exception.{e.__name__}", e, props=("C10", "C20"), modifies=[]) for e in DEST_PROTOCOL_EXC],
    effects=set(), modular=True))


# ---------------------------------------------------------------------------------------------- inactive EOF ack
def _ack_ok(o, r):
    c0 = o.eof_pdu.pdu_conf
    return And_(
        eq(r.directive_code_of_acked_pdu, DirectiveType.EOF_PDU), Eq_(r.condition_code_of_acked_pdu, o.eof_pdu.condition_code),
        Eq_(r.transaction_status, o.status), eq(r.pdu_conf.direction, Direction.TOWARDS_SENDER),
        Eq_(r.pdu_conf.source_entity_id.value, c0.source_entity_id.value),
        Eq_(r.pdu_conf.dest_entity_id.value, c0.dest_entity_id.value),
        Eq_(r.pdu_conf.transaction_seq_num.value, c0.transaction_seq_num.value),
        Eq_(r.pdu_conf.trans_mode, c0.trans_mode), Eq_(r.pdu_conf.crc_flag, c0.crc_flag))


CONTRACTS.append(Contract(
    "cfdppy.handler.dest.acknowledge_inactive_eof_pdu",
    arg_types={"eof_pdu": T.Obj(EofPdu), "status": T.Enum(TransactionStatus)}, props=("C20",), result=T.Opaque,
    requires=[("pdu_wf", lambda o: pdu_wf(o.eof_pdu))],
    modifies=["eof_pdu.pdu_conf.direction"],
    ensures=[
        Clause("C20.ack_of_inactive_eof", lambda o, n, r: r.cls is AckPdu and _ack_ok(o, r), ("C20",)),
        # the ACK is routed back to the sender
        Clause("C20.ack_routed_to_source", lambda o, n, r: Not_(_routed_to_dest(r)), ("C20",)),
    ],
    raises=[RaiseClause("C20.active_status_refused", ValueError, when=lambda o: eq(o.status, TransactionStatus.ACTIVE),
                        iff=True, props=("C20",), modifies=[])],
    effects=set(), modular=False))
