"""Concrete monitors of the property statements over one finished run of contracts/sim.py (real handlers).
Each monitor appends (property, text) to run.viol.  They are deliberately conservative: a monitor only speaks where the
property statement is unambiguous for the scenario at hand."""
from __future__ import annotations

import zlib

from contracts.sim import RECEIVING_STEPS, fd_accepted


def crc_of(kind, data):
    if kind == "CRC_32":
        return zlib.crc32(data).to_bytes(4, "big")
    if kind == "CRC_32C":
        from stubs.conformance import _crc32c_ref
        return _crc32c_ref(data).to_bytes(4, "big")
    if kind == "NULL_CHECKSUM":
        return bytes(4)
    if kind == "MODULAR":
        s = 0
        for i in range(0, len(data), 4):
            s += int.from_bytes(data[i:i + 4].ljust(4, b"\0"), "big")
        return (s % 2 ** 32).to_bytes(4, "big")
    raise ValueError(kind)


def tname(p):
    return type(p).__name__


def run_all(run, t):
    c, cur = run.cfg, run.cur
    script = cur["script"]
    fault_free = not [e for e in script if e[0] not in ("put_again", "stray_dst", "stray_src")]
    logs = run.log[cur["first_log"]:]
    inds = run.ind[cur["first_ind"]:]
    faults = run.faults[cur["first_fault"]:]
    sd = cur["sd"]   # [round, pdu] in emission order
    ds = cur["ds"]
    size, data = cur["size"], cur["data"]
    eff_mode = c["put_mode"] or c["mode"]
    eff_closure = c["closure"] if c["put_closure"] is None else c["put_closure"]
    acked = eff_mode == "ack"
    V = run.v
    src_idle = run.src.states.state.name == "IDLE"
    dst_idle = run.dst.states.state.name == "IDLE"
    src_fin = [i for i in inds if i[0] == "S" and i[1] == "finished"]
    dst_fin = [i for i in inds if i[0] == "D" and i[1] == "finished"]
    cancels = cur.get("cancels", [])

    check_isolation(run, t, logs, inds, faults)

    # ---------------------------------------------------------------- C07: the PDU stream of the sender (first transmission)
    if sd:
        first = sd[0][1]
        if tname(first) != "MetadataPdu":
            V("C07", f"first PDU of the sender is {tname(first)}, not the Metadata PDU")
        else:
            exp_size = 0 if size is None else size
            if first.file_size != exp_size:
                V("C07", f"Metadata PDU announces file size {first.file_size}, the file has {exp_size} bytes")
            if size is not None and (first.source_file_name != str(cur["src_path"]) or first.dest_file_name is None):
                V("C07", "Metadata PDU does not carry the file names of the request")
            if first.checksum_type.name != c["crc"] and size is not None:
                V("C07", f"Metadata PDU carries checksum type {first.checksum_type.name}, configured {c['crc']}")
            if bool(first.closure_requested) != bool(eff_closure):
                V("C07", f"Metadata PDU closure flag {first.closure_requested}, effective value {eff_closure}")
        seg_eff = None
        if size is not None:
            from spacepackets.cfdp.pdu.file_data import get_max_file_seg_len_for_max_packet_len_and_pdu_cfg
            try:
                derived = get_max_file_seg_len_for_max_packet_len_and_pdu_cfg(first.pdu_header.pdu_conf, c["maxpkt"])
                seg_eff = min(c["seg"], derived) if c["seg"] else derived
            except Exception:  # noqa: BLE001
                seg_eff = None
        nak_rounds = {r for r, p in run.delivered_to_src if tname(p) == "NakPdu"}
        # first-transmission File Data PDUs = those not emitted while answering a NAK: identified by ascending tiling
        pos, eof_seen, per_call = 0, False, {}
        retrans = []
        for rnd, p in sd:
            n = tname(p)
            if len(bytes(p.pack())) > c["maxpkt"] and n in ("FileDataPdu", "EofPdu"):  # (a Metadata PDU is as long as its file names)
                V("C07", f"{n} is {len(bytes(p.pack()))} bytes long, max_packet_len is {c['maxpkt']}")
            want_crc = "WITH_CRC" if cur["crc_flag"] else "NO_CRC"
            if p.pdu_header.pdu_conf.crc_flag.name != want_crc:
                V("C07", f"{n} carries CRC flag {p.pdu_header.pdu_conf.crc_flag.name}, configured {want_crc}")
            if p.pdu_header.pdu_conf.trans_mode.name != ("ACKNOWLEDGED" if acked else "UNACKNOWLEDGED"):
                V("C07", f"{n} carries transmission mode {p.pdu_header.pdu_conf.trans_mode.name}")
            if n == "FileDataPdu":
                if seg_eff is not None and len(p.file_data) > seg_eff:
                    V("C07", f"File Data PDU at offset {p.offset} carries {len(p.file_data)} bytes, effective segment length is {seg_eff}")
                if data is not None and bytes(p.file_data) != data[p.offset:p.offset + len(p.file_data)]:
                    V("C07", f"File Data PDU at offset {p.offset} does not carry the file's bytes")
                if p.offset == pos and not eof_seen and len(p.file_data) > 0:
                    pos += len(p.file_data)
                    per_call[rnd] = per_call.get(rnd, 0) + 1
                else:
                    retrans.append((rnd, p))
            if n == "EofPdu" and not eof_seen:
                eof_seen = True
                if p.condition_code.name == "NO_ERROR":
                    if data is not None and pos != len(data):
                        V("C07", f"EOF (no error) emitted after {pos} of {len(data)} file bytes were sent")
                    if p.file_size != (0 if data is None else len(data)):
                        V("C07", f"EOF announces size {p.file_size}, file has {0 if data is None else len(data)} bytes")
                    if data is not None and p.file_checksum != crc_of(c["crc"], data):
                        V("C07", f"EOF checksum {p.file_checksum.hex()} is not the {c['crc']} of the file")
                else:
                    # C12: EOF (cancel): size = bytes sent so far, checksum over that prefix
                    if p.file_size != pos:
                        V("C12", f"EOF ({p.condition_code.name}) announces size {p.file_size}, {pos} bytes were sent")
                    if data is not None and p.file_checksum != crc_of(c["crc"], data[:p.file_size]):
                        V("C12", f"EOF ({p.condition_code.name}) checksum does not cover the {p.file_size} byte prefix")
        # at most one new File Data PDU per state-machine call: calls are identified by (round, position in log)
        for r in logs:
            if r.get("who") == "S":
                fds = [o for o in r["out"] if o[0] == "FD"]
                if len(fds) > 1 and r["state"][1] != "RETRANSMITTING" and not (r["in"] and r["in"][0] == "NAK"):
                    V("C07", f"one state-machine call emitted {len(fds)} File Data PDUs: {fds}")
        # every Metadata PDU of one transaction is the original one (C08: "the original Metadata PDU for a (0,0) request")
        mds = [bytes(p.pack()) for _, p in sd if tname(p) == "MetadataPdu"]
        if len(set(mds)) > 1:
            V("C08", f"the Metadata PDU re-sent by the sender differs from the original ({len(mds[0])} bytes, then {[len(m) for m in mds[1:]]} bytes)")
        # ---------------------------------------------------------- C08: answers to NAKs
        for r in logs:
            if r.get("who") == "S" and r["in"] and r["in"][0] == "NAK" and not r["exc"]:
                reqs = [tuple(x) for x in r["in"][3]]
                # collect what was emitted from this call until the step left RETRANSMITTING
                idx = logs.index(r)
                emitted = []
                for r2 in logs[idx:]:
                    if r2.get("who") != "S":
                        continue
                    emitted += r2["out"]
                    if r2["state"][1] != "RETRANSMITTING":
                        break
                want = set()
                for a, b in reqs:
                    if (a, b) != (0, 0) and a < b:
                        want |= set(range(a, b))
                got = []
                for o in emitted:
                    if o[0] == "FD":
                        got.append((o[1], o[1] + o[2]))
                # new data of the regular stream may be interleaved only if the sender was still sending file data
                covered = set()
                for a, b in got:
                    if set(range(a, b)) <= want:
                        covered |= set(range(a, b))
                if want - covered:
                    miss = sorted(want - covered)
                    V("C08", f"NAK {reqs}: bytes {miss[0]}..{miss[-1] + 1} were requested but not re-sent (re-sent {got})")
                if (0, 0) in reqs and not any(o[0] == "MD" for o in emitted):
                    V("C08", f"NAK {reqs}: the Metadata PDU was requested but not re-sent")
                if (0, 0) not in reqs and any(o[0] == "MD" for o in emitted):
                    V("C08", f"NAK {reqs}: a Metadata PDU was re-sent although it was not requested")

    # ---------------------------------------------------------------- C06: NAKs of the receiver
    stored, md_at, eof_size, extent = set(), None, None, 0
    deliveries = sorted([(rnd, i, p) for i, (rnd, p) in enumerate(run.delivered_to_dst)], key=lambda x: (x[0], x[1]))
    # replay deliveries and NAK emissions in log order
    di = 0
    nak_seq_after_eof = None
    for r in logs:
        if r.get("who") != "D":
            continue
        def absorb_input():
            nonlocal md_at, extent, eof_size, stored
            if r.get("delivered") and r["in"]:
                k = r["in"][0]
                if k == "MD" and md_at is None:
                    md_at = r["round"]
                elif k == "FD":
                    extent = max(extent, r["in"][1] + r["in"][2])
                    if md_at is not None and fd_accepted(r):
                        stored |= set(range(r["in"][1], r["in"][1] + r["in"][2]))
                elif k == "EOF" and r["in"][1] == "NO_ERROR":
                    eof_size = r["in"][2]
        # a call made in step SENDING_EOF_ACK_PDU first advances the step (and may issue the deferred NAK sequence) and only then
        # handles the PDU it was given: its NAKs were computed before that PDU was seen
        late_input = r["before"][1] == "SENDING_EOF_ACK_PDU"
        if not late_input:
            absorb_input()
        naks = [o for o in r["out"] if o[0] == "NAK"]
        for nk in naks:
            _, s0, s1, reqs = nk
            ext = eof_size if eof_size is not None else extent
            for a, b in reqs:
                if (a, b) == (0, 0):
                    if md_at is not None:
                        V("C06", f"NAK {nk[1:]} requests the Metadata PDU although it was already received")
                    continue
                if not (0 <= a < b <= ext):
                    V("C06", f"NAK request ({a},{b}) lies outside the extent 0..{ext} known so far")
                if not (s0 <= a and b <= s1):
                    V("C06", f"NAK scope ({s0},{s1}) does not enclose its request ({a},{b})")
                hit = set(range(a, b)) & stored
                if hit:
                    V("C06", f"NAK request ({a},{b}) covers bytes {min(hit)}..{max(hit) + 1} which were already stored")
            starts = [a for a, b in reqs if (a, b) != (0, 0)]
            if starts != sorted(starts):
                V("C06", f"NAK requests are not in ascending order: {reqs}")
        if naks and eof_size is not None and not c["imm"] is None:
            # a deferred sequence (all NAKs of one call after the EOF): together exactly the missing bytes of [0, EOF size)
            if r["state"][1] in ("WAITING_FOR_MISSING_DATA", "WAITING_FOR_METADATA") and len(naks) >= 1 and \
                    (r["in"] is None or r["in"][0] in ("EOF",) or not r.get("delivered")):
                union = set()
                for nk in naks:
                    for a, b in nk[3]:
                        union |= set(range(a, b))
                missing = set(range(0, eof_size)) - stored
                if md_at is not None and union != missing and not any(cc[0] == "D" for cc in cancels):
                    only_req = sorted(union - missing)
                    only_missing = sorted(missing - union)
                    V("C06", f"deferred NAK sequence {[nk[3] for nk in naks]} does not request exactly the missing bytes of [0,{eof_size}): "
                             f"not requested {only_missing[:1]}..{only_missing[-1:]} / wrongly requested {only_req[:1]}..{only_req[-1:]}")
        if late_input:
            absorb_input()
    for rnd, p in ds:
        if tname(p) == "NakPdu" and len(bytes(p.pack())) > c["maxpkt"]:
            V("C06", f"NAK PDU is {len(bytes(p.pack()))} bytes long, max_packet_len is {c['maxpkt']}")

    # ---------------------------------------------------------------- C02: fault-free runs complete
    if fault_free and not cancels:
        if not (src_idle and dst_idle):
            V("C02", f"fault-free transfer did not complete: source {run.src.states.step.name}, destination {run.dst.states.step.name}")
        if faults:
            V("C02", f"fault callback on a fault-free link: {faults[0]}")
        excs = [r for r in logs if r.get("exc") and not r.get("event")]
        if excs:
            V("C02", f"API call raised on a fault-free link: {excs[0]['who']} {excs[0]['exc']}")
        ind_on = c["ind"].get("transaction_finished_indication_required", True)
        if ind_on:
            if len(dst_fin) != 1 or dst_fin[0][3:6] != ["NO_ERROR", "DATA_COMPLETE", "FILE_RETAINED" if size is not None else dst_fin[0][5]]:
                V("C02", f"receiver's Transaction-Finished indications on a fault-free link: {dst_fin}")
            if len(src_fin) != 1 or src_fin[0][3] != "NO_ERROR":
                V("C02", f"sender's Transaction-Finished indications on a fault-free link: {src_fin}")
        if size is not None:
            have = cur["dest_path"].read_bytes() if cur["dest_path"].exists() else None
            if have != data:
                V("C02", "destination file differs from the source file after a fault-free transfer")
    # C05 frame: no other path in the destination directory was created or deleted
    listing_after = sorted(p.name for p in (run.root / "d").iterdir())
    expect = set(cur["listing_before"]) | ({cur["dest_path"].name} if size is not None else set())
    deleted = any(cc[0] == "delete_file" for cc in run.dfs.calls[cur["dcalls0"]:])
    if not set(listing_after) <= expect or (not deleted and set(cur["listing_before"]) - set(listing_after)):
        V("C05", f"destination directory changed from {cur['listing_before']} to {listing_after}, destination file is {cur['dest_path'].name}")
    for cc in run.dfs.calls[cur["dcalls0"]:]:
        if cc[1] != str(cur["dest_path"]):
            V("C05", f"receiver's filestore call {cc} addresses another path than the destination file {cur['dest_path']}")

    # ---------------------------------------------------------------- C04: retries happen at expiries only and stop at the limit
    check_retries(run, logs, faults, "S", "EOF", "POSITIVE_ACK_LIMIT_REACHED")
    check_retries(run, logs, faults, "D", "FIN", "POSITIVE_ACK_LIMIT_REACHED")
    check_nak_retries(run, logs, faults)
    # a limit fault that hits the cancel exchange itself (EOF (cancel) / Finished (cancel) already sent) abandons the transaction
    for f in faults:
        who, kind, cond, rnd = f[0], f[1], f[2], f[-1]
        if cond != "POSITIVE_ACK_LIMIT_REACHED" or (c["src_faults"] if who == "S" else c["dst_faults"]):
            continue
        pk = "EOF" if who == "S" else "FIN"
        earlier = [o for r in logs if r.get("who") == who and r["round"] < rnd for o in r["out"] if o[0] == pk and o[1] != "NO_ERROR"]
        if earlier and kind != "abandon":
            V("C04", f"{who}: Positive ACK Limit reached during the cancel exchange ({earlier[0][:2]} already sent) but the transaction "
                     f"was not abandoned ({kind} callback)")
        if earlier and kind == "abandon":
            after = [r for r in logs if r.get("who") == who and r["round"] >= rnd]
            if after and after[0]["state"][0] != "IDLE":
                V("C04", f"{who}: transaction abandoned but the handler is still {after[0]['state']}")
    silent = [e for e in script if e[0] == "silent"]
    # (the two waits the documentation lists as unimplemented inactivity handling are excluded by the property)
    src_excl = run.src.states.step.name == "WAITING_FOR_FINISHED" and acked
    dst_excl = run.dst.states.step.name in ("RECEIVING_FILE_DATA",) or (
        run.dst.states.step.name == "WAITING_FOR_METADATA" and not any(r.get("who") == "D" and r.get("delivered") and r["in"][0] == "EOF" for r in logs))
    if silent and not ((src_idle or src_excl) and (dst_idle or dst_excl)) and not c["src_faults"] and not c["dst_faults"]:
        V("C04", f"a silent peer left a handler busy after {len([l for l in logs if l.get('who') == 'clock'])} timer expiries: "
                 f"source {run.src.states.step.name}, destination {run.dst.states.step.name}")

    # ---------------------------------------------------------------- C14: the configured handler code decides
    from spacepackets.cfdp import ConditionCode
    kinds = {"NOTICE_OF_CANCELLATION": "cancel", "NOTICE_OF_SUSPENSION": "suspend", "IGNORE_ERROR": "ignore", "ABANDON_TRANSACTION": "abandon"}
    for f in faults:
        who, kind, cond = f[0], f[1], f[2]
        h = run.src if who == "S" else run.dst
        code = h.cfg.default_fault_handlers.get_fault_handler(ConditionCode[cond])
        exp = kinds[code.name]
        # (a fault during the cancel exchange is abandoned whatever the table says: C04)
        in_cancel_exchange = any(
            (o[0] == "EOF" and o[1] != "NO_ERROR") or (o[0] == "FIN" and o[1] != "NO_ERROR")
            for r in logs if r.get("who") == who and r["round"] <= f[-1] for o in r["out"])
        if kind != exp and not (kind == "abandon" and in_cancel_exchange):
            V("C14", f"{who}: fault {cond} is configured as {code.name} but the {kind} callback was invoked")
    for who, h, table in (("S", run.src, c["src_faults"]), ("D", run.dst, c["dst_faults"])):
        for cond, code in table.items():
            mine = [f for f in faults if f[0] == who and f[2] == cond]
            if mine and code == "IGNORE_ERROR":
                fins = [i for i in inds if i[0] == who and i[1] == "finished" and i[3] == cond]
                if fins:
                    V("C14", f"{who}: fault {cond} is configured as IGNORE_ERROR but the transaction finished with that condition")

    # ---------------------------------------------------------------- C12: cancellation
    for who, rnd, li in cancels:
        if who == "S":
            after = [r for r in run.log[li - 1:] if r.get("who") == "S"]
            outs = [o for r in after for o in r["out"]]
            was_busy = run.log[li - 1].get("result")
            if was_busy:
                if not outs or outs[0][0] != "EOF" or outs[0][1] != "CANCEL_REQUEST_RECEIVED":
                    V("C12", f"first PDU of the sender after a successful cancel is {outs[0] if outs else None}, not EOF (Cancel Request Received)")
                eof_size = outs[0][2] if outs and outs[0][0] == "EOF" else None
                new_fd = [o for o in outs if o[0] == "FD" and (eof_size is None or o[1] + o[2] > eof_size)]
                if new_fd:
                    V("C12", f"the sender emitted file data after a successful cancel: {new_fd[0]}")
        if who == "D" and run.log[li - 1].get("result"):
            fins = [i for i in inds if i[0] == "D" and i[1] == "finished" and i[-1] >= rnd]
            if c["ind"].get("transaction_finished_indication_required", True):
                if not fins or fins[0][3] != "CANCEL_REQUEST_RECEIVED":
                    V("C12", f"receiver's Transaction-Finished after a successful cancel: {fins}")
    # EOF (cancel) received by the receiver finishes with the EOF's condition; disposition decides deletion
    for r in logs:
        if r.get("who") == "D" and r.get("delivered") and r["in"][0] == "EOF" and r["in"][1] != "NO_ERROR" and not r["exc"] \
                and r["before"][1] in RECEIVING_STEPS + ("WAITING_FOR_METADATA",):
            fins = [i for i in inds if i[0] == "D" and i[1] == "finished" and i[-1] >= r["round"]]
            if c["ind"].get("transaction_finished_indication_required", True) and not any(cc[0] == "D" for cc in cancels):
                if not fins:
                    if dst_idle:
                        V("C12", "EOF (cancel) ended the transaction at the receiver without a Transaction-Finished indication")
                elif fins[0][3] != r["in"][1]:
                    V("C12", f"EOF ({r['in'][1]}) at the receiver finished with condition code {fins[0][3]}")
                elif fins[0][4] == "DATA_INCOMPLETE" and any(
                        x.get("who") == "D" and x.get("delivered") and x["in"][0] == "MD" for x in logs[:logs.index(r)]):
                    # (the file exists only once the Metadata PDU was processed)
                    exists = cur["dest_path"].exists()
                    if c["disp"] and exists:
                        V("C12", "incomplete file kept although disposition-on-cancellation is set")
                    if not c["disp"] and not exists and size is not None:
                        V("C12", "incomplete file deleted although disposition-on-cancellation is not set")

    # ---------------------------------------------------------------- C13: check limit (unacknowledged mode)
    if not acked and size is not None and not cancels:
        eof_del = [r for r in logs if r.get("who") == "D" and r.get("delivered") and r["in"][0] == "EOF" and r["in"][1] == "NO_ERROR"]
        if eof_del:
            e = eof_del[0]
            ei = logs.index(e)
            fd_before = set()
            for r in logs[:ei]:
                if r.get("who") == "D" and r.get("delivered") and r["in"][0] == "FD" and not r["exc"]:
                    fd_before |= set(range(r["in"][1], r["in"][1] + r["in"][2]))
            md_before = any(r.get("who") == "D" and r.get("delivered") and r["in"][0] == "MD" for r in logs[:ei])
            if md_before and fd_before != set(range(size)) and c["crc"] in ("CRC_32", "CRC_32C"):
                # EOF overtook file data: the receiver must not finish at once
                fin_same = [i for i in dst_fin if i[-1] == e["round"]]
                late = set(fd_before)
                expiries, done_at = 0, None
                for r in logs[ei + 1:]:
                    if r.get("who") == "clock":
                        expiries += 1
                    if r.get("who") == "D" and r.get("delivered") and r["in"][0] == "FD" and not r["exc"]:
                        late |= set(range(r["in"][1], r["in"][1] + r["in"][2]))
                        if late == set(range(size)) and done_at is None:
                            done_at = expiries
                cl = [f for f in faults if f[0] == "D" and f[2] == "CHECK_LIMIT_REACHED"]
                if done_at is not None and done_at < c["limit"]:
                    if cl:
                        V("C13", f"Check Limit Reached declared although the outstanding data arrived after {done_at} of {c['limit']} expiries")
                    elif dst_fin and dst_fin[-1][3:5] != ["NO_ERROR", "DATA_COMPLETE"]:
                        V("C13", f"outstanding data arrived before the check limit but the transfer finished with {dst_fin[-1][3:6]}")
                    elif not dst_fin and dst_idle and c["ind"].get("transaction_finished_indication_required", True):
                        V("C13", "outstanding data arrived before the check limit but no Transaction-Finished indication was issued")
                if done_at is None:
                    n_exp = len([r for r in logs[ei + 1:] if r.get("who") == "clock"])
                    if n_exp >= c["limit"] + 1 and not cl and not c["dst_faults"]:
                        V("C13", f"outstanding data never arrived but no Check Limit Reached fault after {n_exp} expiries (limit {c['limit']})")
    # sender with closure in unacknowledged mode: no Finished PDU => Check Limit Reached
    if not acked and eff_closure and size is not None and not cancels and any(e[0] == "silent" and e[1] == "ds" for e in script) \
            and not any(tname(p) == "FinishedPdu" for _, p in run.delivered_to_src):
        cl = [f for f in faults if f[0] == "S" and f[2] == "CHECK_LIMIT_REACHED"]
        if not cl and not c["src_faults"]:
            V("C13", f"sender requested closure and never received a Finished PDU but did not declare Check Limit Reached; "
                     f"finished indications {src_fin}")
    if not acked and not eff_closure and not cancels:
        cl = [f for f in faults if f[0] == "S" and f[2] == "CHECK_LIMIT_REACHED"]
        if cl:
            V("C13", "sender declared Check Limit Reached although no closure was requested")

    # ---------------------------------------------------------------- C15: indications
    sw = c["ind"]
    for who in ("S", "D"):
        mine = [i for i in inds if i[0] == who]
        if not sw.get("eof_sent_indication_required", True) and any(i[1] == "eof_sent" for i in mine):
            V("C15", f"{who}: EOF-Sent indication delivered although disabled")
        if not sw.get("eof_recv_indication_required", True) and any(i[1] == "eof_recv" for i in mine):
            V("C15", f"{who}: EOF-Recv indication delivered although disabled")
        if not sw.get("file_segment_recvd_indication_required", True) and any(i[1] == "seg_recv" for i in mine):
            V("C15", f"{who}: File-Segment-Recv indication delivered although disabled")
        if not sw.get("transaction_finished_indication_required", True) and any(i[1] == "finished" for i in mine):
            V("C15", f"{who}: Transaction-Finished indication delivered although disabled")
    if sw.get("file_segment_recvd_indication_required", True):
        for r in logs:
            if r.get("who") == "D" and r.get("delivered") and r["in"][0] == "FD" and fd_accepted(r) and md_at is not None \
                    and r["round"] >= md_at and r["state"][0] != "IDLE":
                got = [i for i in inds if i[0] == "D" and i[1] == "seg_recv" and i[3] == r["in"][1] and i[4] == r["in"][2] and i[-1] == r["round"]]
                if not got and r["in"][2] > 0 and logs.index(r) > [logs.index(x) for x in logs if x.get("delivered") and x["in"][0] == "MD"][0]:
                    V("C15", f"no File-Segment-Recv indication for the accepted File Data PDU {r['in']}")
    # every Finished PDU of the receiver is matched by a Transaction-Finished indication with the same parameters
    if sw.get("transaction_finished_indication_required", True):
        last = None
        for rnd, p in ds:
            if tname(p) == "FinishedPdu":
                k = [p.condition_code.name, p.delivery_code.name, p.file_status.name]
                if k != last:
                    last = k
                    if not any(i[3:6] == k for i in dst_fin):
                        V("C15", f"Finished PDU {k} emitted but no Transaction-Finished indication with these parameters ({[i[3:6] for i in dst_fin]})")
    if sw.get("eof_sent_indication_required", True) and any(tname(p) == "EofPdu" for _, p in sd):
        if not any(i[0] == "S" and i[1] == "eof_sent" for i in inds):
            V("C15", "EOF PDU sent but no EOF-Sent indication")
    tr = [i for i in inds if i[0] == "S" and i[1] == "transaction"]
    if tr and cur.get("msgs"):
        want_orig = {"orig_then_put_response": None, "put_response_then_orig": None, "orig_only": "orig"}[cur["msgs"]]
        if tr[0][3] != want_orig:
            V("C15", f"Transaction indication surfaces originating id {tr[0][3]!r} for messages {cur['msgs']}, expected {want_orig!r}")
    # causal order at the sender: transaction, eof_sent, finished
    order = [i[1] for i in inds if i[0] == "S" and i[1] in ("transaction", "eof_sent", "finished")]
    rank = {"transaction": 0, "eof_sent": 1, "finished": 2}
    if [rank[x] for x in order] != sorted(rank[x] for x in order):
        V("C15", f"sender indications out of causal order: {order}")
    tids = {i[2] for i in inds if i[1] in ("transaction", "eof_sent", "finished", "metadata_recv", "seg_recv", "eof_recv")}
    seqs = {int(p.pdu_header.pdu_conf.transaction_seq_num.value) for _, p in sd}
    if sd and not tids <= seqs:
        V("C15", f"indications carry transaction sequence numbers {sorted(tids)}, the PDUs carry {sorted(seqs)}")


def normalized(run, logs, inds, faults):
    """what a transaction looked like from outside, without sequence numbers, absolute round numbers and scratch directory names"""
    import json
    root = str(run.root)
    logs, inds = json.loads(json.dumps([logs, inds], default=str).replace(root, "<root>"))
    tr = []
    for r in logs:
        if r.get("event"):
            continue
        if r.get("who") == "clock":
            tr.append("clock")
        else:
            tr.append([r["who"], r.get("in"), r.get("out"), (r.get("exc") or "")[:40], r.get("state")])
    return {"calls": tr, "indications": [[i[0], i[1]] + [x for x in i[3:-1]] for i in inds], "faults": [f[:4] for f in faults]}


def first_difference(a, b):
    for k in ("calls", "indications", "faults"):
        for i, (x, y) in enumerate(zip(a[k], b[k])):
            if x != y:
                return f"{k}[{i}]: {x} vs {y}"
        if len(a[k]) != len(b[k]):
            return f"{k}: {len(a[k])} vs {len(b[k])} entries"
    return None


def check_isolation(run, t, logs, inds, faults):
    """C11: the same transaction behaves the same after any history on the same handler objects"""
    c = run.cfg
    if c.get("crc_flag_first_only") or c.get("dest_exists") and not c.get("dest_is_dir"):
        return
    n = normalized(run, logs, inds, faults)
    if not hasattr(run, "tx_traces"):
        run.tx_traces = []
    run.tx_traces.append(n)
    if t >= 1:
        d = first_difference(run.tx_traces[0], n)
        if d:
            run.v("C11", f"transaction {t} on the same handlers differs from the identical transaction 0: {d}")


def check_retries(run, logs, faults, who, kind, limit_fault):
    """C04 for the positive-ACK procedures: after the first emission of the PDU `kind` by `who`, while nothing is delivered to
    `who`, each clock advance re-sends it exactly once until the limit fault at the N-th expiry"""
    N = run.cfg["limit"]
    i = 0
    seen = []
    while i < len(logs):
        r = logs[i]
        if r.get("who") == who and any(o[0] == kind for o in r["out"]):
            pdu = next(o for o in r["out"] if o[0] == kind)
            if pdu in seen:
                i += 1   # a re-send of a procedure whose monitoring window was interrupted by an arriving PDU
                continue
            seen.append(pdu)
            if who == "S" and run.src.transmission_mode is not None and False:
                pass
            acked_mode = (run.cfg["put_mode"] or run.cfg["mode"]) == "ack"
            if not acked_mode:
                return
            expiries, resends, j = 0, 0, i + 1
            fault_at = None
            while j < len(logs):
                x = logs[j]
                if x.get("who") == "clock":
                    expiries += 1
                elif x.get("who") == who:
                    if x.get("in") is not None:
                        break   # something was delivered (or a cancel request): progress, the count restarts
                    same = [o for o in x["out"] if o[0] == kind]
                    if same and same[0] != pdu:
                        break   # a different PDU of that kind (cancel exchange): a new procedure
                    if same:
                        resends += 1
                        if resends > expiries:
                            run.v("C04", f"{who} re-sent {pdu} {resends} times after only {expiries} timer expiries")
                        if expiries >= N:
                            run.v("C04", f"{who} re-sent {pdu} at expiry {expiries}, the limit is {N}")
                    lf = [f for f in faults if f[0] == who and f[2] == limit_fault and f[-1] == x["round"]]
                    if lf and fault_at is None and expiries > 0:
                        fault_at = expiries
                        if expiries != N:
                            run.v("C04", f"{who} declared {limit_fault} at expiry {expiries}, the limit is {N}")
                        break
                    if x["state"][0] == "IDLE":
                        break
                    if expiries >= N and not same and not lf and x["state"][1] in ("WAITING_FOR_EOF_ACK", "WAITING_FOR_FINISHED_ACK"):
                        run.v("C04", f"{who} still waits in {x['state'][1]} after {expiries} expiries without {limit_fault} (limit {N})")
                        break
                j += 1
            i = j
            continue
        i += 1


def check_nak_retries(run, logs, faults):
    """C04 for the deferred NAK procedure: re-issued only at expiries; NAK Limit Reached at exactly the N-th consecutive expiry
    without progress (progress = a PDU of the transaction arriving while the procedure waits)"""
    N = run.cfg["limit"]
    active, expiries, reissues = False, 0, 0
    for x in logs:
        if x.get("who") == "clock":
            if active:
                expiries += 1
            continue
        if x.get("who") != "D" or x.get("event"):
            continue
        waiting = x["state"][1] in ("WAITING_FOR_MISSING_DATA", "WAITING_FOR_METADATA")
        lf = [f for f in faults if f[0] == "D" and f[2] == "NAK_LIMIT_REACHED" and f[-1] == x["round"]]
        if not active:
            if x["before"][1] == "SENDING_EOF_ACK_PDU" and waiting and any(o[0] == "NAK" for o in x["out"]):
                active, expiries, reissues = True, 0, 0      # first issuance of the sequence
            continue
        if x.get("in") is not None and x.get("delivered"):
            if x["in"][0] not in ("FD", "MD"):
                active = False     # (whether a duplicate EOF counts as progress depends on the step: stop judging this window)
                continue
            expiries, reissues = 0, 0                         # progress resets the count
        elif x.get("in") is None:
            if any(o[0] == "NAK" for o in x["out"]):
                reissues += 1
                if reissues > expiries:
                    run.v("C04", f"receiver re-issued its NAK sequence {reissues} times after only {expiries} expiries without progress")
                if expiries >= N:
                    run.v("C04", f"receiver re-issued its NAK sequence at expiry {expiries} without progress, the limit is {N}")
            if lf and expiries != N:
                run.v("C04", f"receiver declared NAK Limit Reached at expiry {expiries} without progress, the limit is {N}")
            if not lf and waiting and expiries > N and not run.cfg["dst_faults"]:
                run.v("C04", f"receiver still waits for missing data after {expiries} expiries without progress and without NAK Limit "
                             f"Reached (limit {N})")
                return
        if not waiting or lf:
            active = False
