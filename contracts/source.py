"""Contracts of cfdppy.handler.source.SourceHandler (real code in /repo/src/cfdppy/handler/source.py)."""
from __future__ import annotations

import z3

import cfdppy.handler.source as S
from cfdppy.handler.source import SourceHandler
from cfdppy.handler.source import TransactionStep as STEP
from cfdppy.request import PutRequest
from cfdppy import exceptions as X

from spacepackets.cfdp import (
    ChecksumType, CrcFlag, Direction, LargeFileFlag, PduType, TransactionId, TransmissionMode,
)
from spacepackets.cfdp.pdu import EofPdu, FileDataPdu, MetadataPdu, PduHolder

from pyvc.core import T, LoopSpec, isnone, val
from pyvc.spec import Clause, Contract, RaiseClause
from pyvc.values import And_, Eq_, Implies_, Not_, Or_, SBytes, SObj, SOpt, blen, to_z3_bool, to_z3_int

from .common import (
    ACK, CC, FH, UNACK, B, eq, handler_for, iff, ne, one_of, remote_cfg_inv, table_inv, table_is_default,
    table_of, ubf_inv, CfdpState, DeliveryCode, FileStatus, FinishedPdu, NakPdu, AckPdu, DirectiveType,
    FAULT_CONDITIONS, KeepAlivePdu, PromptPdu,
)
from .dest import (  # shared vocabulary
    ANY_PDU, conf_wf, declared, default_table, emitted, fault_cbs, inds, no_fault, opt, pdu_wf, tid_eq, timer_resets,
    vfs_ops, FS0,
)
from stubs.cfdp import PDU_CLASSES, fs_checksum, fs_exists, fs_size

P = "cfdppy.handler.source.SourceHandler."
IDLE, BUSY = CfdpState.IDLE, CfdpState.BUSY
SELF = {"self": T.Obj(SourceHandler)}

SENDING_STEPS = [STEP.SENDING_METADATA, STEP.SENDING_FILE_DATA, STEP.RETRANSMITTING, STEP.SENDING_EOF,
                 STEP.WAITING_FOR_EOF_ACK, STEP.WAITING_FOR_FINISHED, STEP.SENDING_ACK_OF_FINISHED,
                 STEP.NOTICE_OF_COMPLETION]


def mode(h):
    return h._params.pdu_conf.trans_mode


def rcfg(h):
    return val(h._params.remote_cfg)


def step_is(h, *steps):
    return one_of(h.states.step, list(steps))


def qlen(h):
    return h._pdus_to_be_sent.length()


def qempty(h):
    return qlen(h) == 0


def present(x):
    return opt(x, lambda v: True, False)


def put_req_wf(r):
    """a well-formed put request: source and destination file given together or not at all (metadata only)"""
    return And_(ubf_inv(r.destination_id), iff(isnone(r.source_file), isnone(r.dest_file)))


def cfg_valid(rc, conf):
    """F11 (degenerate configurations) is outside the contracts: the maximum packet length leaves room for at
    least one byte of file data and for the fixed-size PDUs; a configured maximum segment length is >= 1"""
    hdr = 4 + conf.source_entity_id.byte_len + conf.dest_entity_id.byte_len + conf.transaction_seq_num.byte_len
    return And_(rc.max_packet_len >= hdr + 8 + 2 + 16,
                opt(rc.max_file_segment_len, lambda m: m >= 1, True))


def ts_fresh(h):
    """a transaction that is about to start (step TRANSACTION_START) still has fresh file parameters"""
    fp = h._params.fp
    return Implies_(step_is(h, STEP.TRANSACTION_START), And_(
        Not_(B(fp.metadata_only)), Not_(B(fp.empty_file)), opt(fp.file_size, lambda fs: fs == 0, False)))


def src_inv(h):
    st, p = h.states, h._params
    fp, pa, ap = p.fp, p.positive_ack_params, p.ack_params
    m = mode(h)
    busy = ne(st.state, IDLE)
    started = And_(busy, Not_(step_is(h, STEP.IDLE, STEP.TRANSACTION_START)))
    L = [
        ("S0.state_dom", one_of(st.state, [IDLE, BUSY])),
        ("S1.idle_state_idle_step", Implies_(eq(st.state, IDLE), eq(st.step, STEP.IDLE))),
        ("S2.busy_has_request", Implies_(busy, And_(present(h._put_req), present(p.remote_cfg)))),
        ("S2.request_wf", opt(h._put_req, put_req_wf, True)),
        ("S2.started_has_id", Implies_(started, And_(present(p.transaction_id), conf_wf(p.pdu_conf)))),
        ("S2.id_only_when_started", Implies_(Not_(started), isnone(p.transaction_id))),
        ("S6.ready_count", to_z3_int(st._num_packets_ready) == qlen(h)),
        ("cfg.table", table_inv(table_of(h))),
        ("cfg.local_id", ubf_inv(h.cfg.local_entity_id)),
        ("cfg.remote", opt(p.remote_cfg, remote_cfg_inv, True)),
        ("S3.progress", And_(present(fp.file_size), opt(fp.file_size, lambda fs: And_(0 <= fp.progress, fs >= 0, Implies_(
            started, fp.progress <= fs)), False))),
        ("S3.seglen", Implies_(started, And_(fp.segment_len >= 1, fp.segment_len <= 65527))),
        # tiling: a file shorter than one segment is sent in one piece (so progress is 0 or the file size)
        ("S3.small_file", Implies_(started, opt(fp.file_size, lambda fs: Implies_(fs < fp.segment_len, Or_(
            fp.progress == 0, fp.progress == fs)), False))),
        ("S3.kind", Implies_(started, And_(
            Implies_(B(fp.metadata_only), And_(opt(h._put_req, lambda r: isnone(r.source_file), True), Not_(B(fp.empty_file)))),
            Implies_(Not_(B(fp.metadata_only)), opt(h._put_req, lambda r: Not_(isnone(r.source_file)), True)),
            Implies_(B(fp.empty_file), opt(fp.file_size, lambda fs: fs == 0, False)),
            Implies_(B(fp.metadata_only), And_(fp.progress == 0, opt(fp.file_size, lambda fs: fs == 0, False)))))),
        ("S4.eof_ack_wait", Implies_(Or_(eq(st.step, STEP.WAITING_FOR_EOF_ACK), And_(
            eq(st.step, STEP.RETRANSMITTING), opt(ap.step_before_retransmission, lambda s: eq(s, STEP.WAITING_FOR_EOF_ACK), False))), And_(
            eq(m, ACK), present(pa.ack_timer), present(p.cond_code_eof), 0 <= pa.ack_counter,
            opt(p.remote_cfg, lambda rc: pa.ack_counter < rc.positive_ack_timer_expiration_limit, False)))),
        ("S5.retransmitting", Implies_(eq(st.step, STEP.RETRANSMITTING), And_(eq(m, ACK), opt(
            ap.step_before_retransmission,
            lambda s: one_of(s, [STEP.SENDING_FILE_DATA, STEP.WAITING_FOR_EOF_ACK, STEP.WAITING_FOR_FINISHED]), False)))),
        ("S7.eof_code", Implies_(step_is(h, STEP.SENDING_EOF), present(p.cond_code_eof))),
        # C11 (fresh state): before a transaction has started every per-transaction field has its constructor value
        ("S9.fresh_before_start", And_(
            Implies_(Not_(started), And_(
                fp.progress == 0, isnone(p.cond_code_eof), isnone(p.finished_params), isnone(p.check_timer),
                isnone(pa.ack_timer), pa.ack_counter == 0)),
            Implies_(eq(st.step, STEP.IDLE), And_(
                Not_(B(fp.metadata_only)), Not_(B(fp.empty_file)), opt(fp.file_size, lambda fs: fs == 0, False))))),
        ("S9.fresh_file_params_at_start", ts_fresh(h)),
        ("S9.idle_has_no_cfg", Implies_(eq(st.state, IDLE), And_(isnone(p.remote_cfg), Not_(B(p.closure_requested))))),
        ("S8.check_timer_only_unacked_closure", opt(p.check_timer, lambda t: And_(
            eq(m, UNACK), B(p.closure_requested), step_is(h, STEP.WAITING_FOR_FINISHED, STEP.NOTICE_OF_COMPLETION)), True)),
    ]
    return L


def inv_formula(h):
    return And_(*[f for _, f in src_inv(h)])


_labels = None


def inv_labels():
    global _labels
    if _labels is None:
        from pyvc.core import Interp, PathCtx
        from stubs.world import WORLD
        I = Interp(PathCtx([]), WORLD)
        h = I.fresh_obj(SourceHandler, "labels")
        _labels = [l for l, _ in src_inv(h)]
    return _labels


def inv_clauses(props=()):
    out = []
    for i, lbl in enumerate(inv_labels()):
        out.append(Clause(f"inv.{lbl}", (lambda i: (lambda o, n, r: src_inv(n.self)[i][1]))(i), props))
    return out


REQ_INV = [("SrcInv", lambda o: inv_formula(o.self))]
QMOD = ["self._pdus_to_be_sent", "self.states._num_packets_ready"]
REQ_TS_FRESH = []
LIGHT = ("S0.state_dom", "S2.busy_has_request", "S2.request_wf", "cfg.table", "cfg.local_id", "cfg.remote")
# the helpers called in the middle of _transaction_start see file parameters that are already set while the step is
# still TRANSACTION_START: they rely on the configuration part of the invariant only
REQ_INV_LIGHT = [("SrcInvCfg", lambda o: And_(*[f for l, f in src_inv(o.self) if l in LIGHT]))]
DEFAULT = [("default_fault_table", default_table)]
CONTRACTS = []


def C(name, **kw):
    c = Contract(P + name, **kw)
    CONTRACTS.append(c)
    return c


def unchanged(o, n, *paths):
    fs = []
    for p in paths:
        a, b = o.self, n.self
        for part in p.split("."):
            a = getattr(a, part)
            b = getattr(b, part)
        fs.append(Eq_(a, b))
    return And_(*fs)


def same_obj(a, b):
    """identity of two (possibly optional) heap references"""
    if isinstance(a, SOpt) or isinstance(b, SOpt):
        ia, ib = isnone(a), isnone(b)
        va, vb = val(a), val(b)
        both = (va is not None and vb is not None and isinstance(va, SObj) and isinstance(vb, SObj) and va.oid == vb.oid)
        return Or_(And_(ia, ib), And_(Not_(ia), Not_(ib), both))
    if a is None or b is None:
        return a is None and b is None
    return a.oid == b.oid


# ==============================================================================================
# C19: put request admission and parameterisation
# ==============================================================================================
def _pr_busy(o):
    return ne(o.self.states.state, IDLE)


def _pr_file_missing(o):
    r = o.request
    return opt(r.source_file, lambda f: Not_(fs_exists(FS0, f.p)), False)


def _pr_cfg(o):
    """the remote configuration the table holds for the request's destination (oracle of the table stub)"""
    return None


PR_MOD = ["self._put_req", "self._params.remote_cfg", "self._params.pdu_conf.dest_entity_id",
          "self.states._num_packets_ready", "self.states.state", "self._params.pdu_conf.trans_mode",
          "self._params.closure_requested"]


def _resolved_mode(o, n):
    r = o.request
    rc = val(n.self._params.remote_cfg)
    return opt(r.trans_mode, lambda m: Eq_(mode(n.self), m), Eq_(mode(n.self), rc.default_transmission_mode))


def _resolved_closure(o, n):
    r = o.request
    rc = val(n.self._params.remote_cfg)
    return opt(r.closure_requested, lambda c: iff(B(n.self._params.closure_requested), B(c)),
               iff(B(n.self._params.closure_requested), B(rc.closure_requested)))


C("put_request", arg_types={**SELF, "request": T.Obj(PutRequest)}, props=("C19",), result=T.Bool,
  requires=REQ_INV + [
      ("request_wf", lambda o: put_req_wf(o.request)),
      # environment: the PDUs of the previous transaction were retrieved before the next request (the handler
      # zeroes its ready counter without looking at the queue)
      ("env", lambda o: Implies_(eq(o.self.states.state, IDLE), qempty(o.self))),
  ],
  modifies=PR_MOD,
  cond_frames=[("C19.busy_refused_unchanged", _pr_busy, [])],
  ensures=[
      Clause("C19.accepted_iff_idle", lambda o, n, r: iff(r, Not_(_pr_busy(o))), ("C19",)),
      Clause("C19.accepted_state", lambda o, n, r: Implies_(r, And_(
          eq(n.self.states.state, BUSY), eq(n.self.states.step, STEP.IDLE),
          opt(n.self._put_req, lambda q: q.oid == o.request.oid, False),
          opt(n.self._params.remote_cfg, lambda rc: Eq_(rc.entity_id.value, o.request.destination_id.value), False),
          n.self._params.pdu_conf.dest_entity_id.oid == o.request.destination_id.oid)), ("C19",)),
      Clause("C19.mode_from_request_else_mib", lambda o, n, r: Implies_(r, _resolved_mode(o, n)), ("C19",)),
      Clause("C19.closure_from_request_else_mib", lambda o, n, r: Implies_(r, _resolved_closure(o, n)), ("C19",)),
      Clause("C19.source_file_exists", lambda o, n, r: Implies_(r, Not_(_pr_file_missing(o))), ("C19",)),
      Clause("C19.no_output", lambda o, n, r: len([e for e in n.trace if e["kind"] in ("pdu", "ind", "fault_cb")]) == 0, ("C19",)),
  ] + inv_clauses(("C19",)),
  raises=[
      RaiseClause("C19.missing_file", X.SourceFileDoesNotExist, when=lambda o: And_(Not_(_pr_busy(o)), _pr_file_missing(o)),
                  iff=True, props=("C19", "C10"), modifies=["self._put_req"],
                  post=lambda o, n: And_(eq(n.self.states.state, IDLE), eq(n.self.states.step, STEP.IDLE))),
      RaiseClause("C19.unknown_destination", X.NoRemoteEntityCfgFound,
                  when=lambda o: And_(Not_(_pr_busy(o)), Not_(_pr_file_missing(o))), props=("C19", "C10"),
                  modifies=["self._put_req", "self._params.remote_cfg"],
                  post=lambda o, n: And_(eq(n.self.states.state, IDLE), eq(n.self.states.step, STEP.IDLE),
                                         isnone(n.self._params.remote_cfg))),
  ],
  effects={"vfs"}, modular=False)


# ==============================================================================================
# shared helpers: EOF PDUs
# ==============================================================================================
def src_file(h):
    return val(val(h._put_req).source_file)


def ck_of_prefix(h, size):
    """spec checksum (abstract filestore) of the first `size` bytes of the source file, negotiated type"""
    return fs_checksum(FS0, to_z3_int(rcfg(h).crc_type), src_file(h).p, to_z3_int(size))


def eof_checksum_ok(o, pdu, size):
    """the EOF's checksum is the filestore checksum of the prefix it announces (null checksum for metadata only)"""
    from pyvc.values import bytes_eq
    h = o.self
    if isinstance(pdu.file_checksum, bytes):
        return And_(B(h._params.fp.metadata_only), pdu.file_checksum == bytes(4))
    return And_(Not_(B(h._params.fp.metadata_only)), Eq_(pdu.file_checksum.b, ck_of_prefix(h, size)))


def one_eof(o, n, cond, size):
    """exactly one PDU was queued; it is an EOF with the given condition, size and the checksum of that prefix,
    and carries the transaction's header fields"""
    ps = emitted(n)
    if len(ps) != 1 or ps[0].cls is not EofPdu:
        return False
    e = ps[0]
    c = o.self._params.pdu_conf
    return And_(Eq_(e.condition_code, cond), Eq_(e.file_size, size), eof_checksum_ok(o, e, size),
                eq(e.pdu_conf.direction, Direction.TOWARDS_RECEIVER), Eq_(e.pdu_conf.trans_mode, c.trans_mode),
                Eq_(e.pdu_conf.transaction_seq_num.value, c.transaction_seq_num.value),
                Eq_(e.pdu_conf.source_entity_id.value, c.source_entity_id.value),
                Eq_(e.pdu_conf.dest_entity_id.value, c.dest_entity_id.value),
                Eq_(e.pdu_conf.crc_flag, c.crc_flag), Eq_(e.pdu_conf.file_flag, c.file_flag))


def eof_sent_ind_ok(o, n, count=1):
    sw = B(o.self.cfg.indication_cfg.eof_sent_indication_required)
    es = inds(n, "eof_sent_indication")
    if len(es) == 0:
        return Not_(sw)
    if len(es) != count:
        return False
    return And_(sw, *[tid_eq(e["args"][0], val(o.self._params.transaction_id)) for e in es])


def in_cancel_exchange(h):
    """an EOF (cancel) was already issued for this transaction"""
    c = h._params.cond_code_eof
    return opt(c, lambda v: ne(v, CC.NO_ERROR), False)


def active_with_file(o):
    """a started transaction (Metadata at least prepared), so ids, sizes and the source file are known"""
    h = o.self
    return And_(ne(h.states.state, IDLE), Not_(step_is(h, STEP.IDLE, STEP.TRANSACTION_START)))


# ==============================================================================================
# C12 / C04 / C14: notice of cancellation at the sender
# ==============================================================================================
NOC_MOD = ["self._params.cond_code_eof", "self._pdus_to_be_sent", "self.states._num_packets_ready", "self.states.step",
           "self.states.state", "self._params.positive_ack_params.ack_timer", "self._params.positive_ack_params.ack_counter",
           "self._params.positive_ack_params", "self._params.remote_cfg", "self._params.transaction_id",
           "self._params.check_timer", "self._params.closure_requested", "self._params.pdu_conf",
           "self._params.finished_params", "self._params.fp.progress", "self._params.fp.segment_len",
           "self._params.fp.crc32", "self._params.fp.file_size", "self._params.fp.metadata_only",
           "self._params.fp.empty_file"]


def _abandoned(o, n, cond=None):
    """abandoned: one abandoned_cb (with the condition of the EOF (cancel) in flight), handler idle and reset,
    nothing emitted"""
    f = fault_cbs(n)
    if len(f) != 1 or f[0]["name"] != "abandoned_cb":
        return False
    return And_(eq(n.self.states.state, IDLE), eq(n.self.states.step, STEP.IDLE), len(emitted(n)) == 0,
                n.self._pdus_to_be_sent.length() == 0, isnone(n.self._params.transaction_id),
                isnone(n.self._params.cond_code_eof), isnone(n.self._params.remote_cfg),
                Eq_(f[0]["progress"], o.self._params.fp.progress),
                tid_eq(f[0]["transaction_id"], val(o.self._params.transaction_id)))


def _cancel_eof_issued(o, n, cond):
    h = o.self
    return And_(
        one_eof(o, n, cond, h._params.fp.progress), eof_sent_ind_ok(o, n),
        Implies_(eq(mode(h), ACK), And_(
            opt(n.self._params.cond_code_eof, lambda c: Eq_(c, cond), False),
            step_is(n.self, STEP.WAITING_FOR_EOF_ACK), n.self._params.positive_ack_params.ack_counter == 0,
            opt(n.self._params.positive_ack_params.ack_timer, lambda t: Not_(B(t.expired)), False),
            Eq_(n.self._params.fp.progress, h._params.fp.progress))),
        Implies_(eq(mode(h), UNACK), And_(eq(n.self.states.state, IDLE), eq(n.self.states.step, STEP.IDLE))))


def _cancel_eof_issued_state_only(o, n, cond):
    """the part of _cancel_eof_issued that does not look at the event trace (usable by callers)"""
    h = o.self
    return And_(
        Implies_(eq(mode(h), ACK), And_(
            step_is(n.self, STEP.WAITING_FOR_EOF_ACK), n.self._params.positive_ack_params.ack_counter == 0,
            opt(n.self._params.cond_code_eof, lambda c: Eq_(c, cond), False),
            Eq_(n.self._params.fp.progress, h._params.fp.progress))),
        Implies_(eq(mode(h), UNACK), And_(eq(n.self.states.state, IDLE), eq(n.self.states.step, STEP.IDLE))))


C("_notice_of_cancellation", arg_types={**SELF, "condition_code": T.Enum(CC)}, props=("C04", "C12", "C14"), result=T.Bool,
  requires=REQ_INV + [("active", active_with_file), ("queue_empty", lambda o: qempty(o.self)),
                      ("is_fault_code", lambda o: ne(o.condition_code, CC.NO_ERROR))],
  modifies=NOC_MOD,
  ensures=[
      Clause("C04.src.abandon_when_cancel_exchange_faults", lambda o, n, r: Implies_(in_cancel_exchange(o.self), And_(
          Not_(B(r)) if not isinstance(r, bool) else (not r), _abandoned(o, n))), ("C04", "C14")),
      Clause("C12.src.cancel_issues_eof_for_prefix", lambda o, n, r: Implies_(Not_(in_cancel_exchange(o.self)), And_(
          B(r) if not isinstance(r, bool) else r, no_fault(n), _cancel_eof_issued(o, n, o.condition_code))), ("C12", "C04", "C09")),
      Clause("state.after_cancel", lambda o, n, r: And_(
          Implies_(in_cancel_exchange(o.self), eq(n.self.states.state, IDLE)),
          Implies_(Not_(in_cancel_exchange(o.self)), _cancel_eof_issued_state_only(o, n, o.condition_code))), ("C12", "C04", "C14")),
  ] + inv_clauses(("C12",)),
  effects={"vfs", "user", "timer", "fault_cb"}, modular=False)


# ---------------------------------------------------------------------------------------------- cancel request
def _cr_match(o):
    h = o.self
    return And_(ne(h.states.state, IDLE), Not_(isnone(h._params.transaction_id)),
                tid_eq(o.transaction_id, val(h._params.transaction_id)))


C("cancel_request", arg_types={**SELF, "transaction_id": T.Obj(TransactionId)}, props=("C12",), result=T.Bool,
  requires=REQ_INV,
  modifies=NOC_MOD,
  cond_frames=[("C12.src.refused_changes_nothing", lambda o: Not_(_cr_match(o)), [])],
  ensures=[
      Clause("C12.src.returns_true_iff_active_id", lambda o, n, r: iff(r, _cr_match(o)), ("C12",)),
      Clause("C12.src.cancel_eof", lambda o, n, r: Implies_(And_(_cr_match(o), Not_(in_cancel_exchange(o.self))), And_(
          _cancel_eof_issued(o, n, CC.CANCEL_REQUEST_RECEIVED), no_fault(n))), ("C12", "C09")),
      Clause("C12.src.second_cancel_abandons", lambda o, n, r: Implies_(And_(_cr_match(o), in_cancel_exchange(o.self)),
                                                                      _abandoned(o, n)), ("C12", "C04")),
      Clause("C12.src.refused_is_silent", lambda o, n, r: Implies_(Not_(_cr_match(o)), len(n.trace) == 0), ("C12",)),
  ] + inv_clauses(("C12",)),
  raises=[RaiseClause("C10.unretrieved_truthful", X.UnretrievedPdusToBeSent, iff=True,
                      when=lambda o: And_(ne(o.self.states.state, IDLE), qlen(o.self) > 0),
                      props=("C10", "C12"), modifies=[])],
  effects={"vfs", "user", "timer", "fault_cb"}, modular=False)


# ==============================================================================================
# C14: fault declaration at the sender
# ==============================================================================================
def _fh(o):
    return handler_for(table_of(o.self), o.cond)


def _one_cb(o, n, name):
    f = fault_cbs(n)
    if len(f) != 1 or f[0]["name"] != name:
        return False
    return And_(Eq_(f[0]["cond"], o.cond), Eq_(f[0]["progress"], o.self._params.fp.progress),
                tid_eq(f[0]["transaction_id"], val(o.self._params.transaction_id)))


C("_declare_fault", arg_types={**SELF, "cond": T.Enum(CC)}, props=("C14",), result=None,
  requires=REQ_INV + [("active", active_with_file), ("queue_empty", lambda o: qempty(o.self)),
                      ("cond_in_table", lambda o: one_of(o.cond, FAULT_CONDITIONS))],
  modifies=NOC_MOD,
  ensures=[
      Clause("C14.src.ignore", lambda o, n, r: Implies_(Eq_(_fh(o), FH.IGNORE_ERROR), And_(
          _one_cb(o, n, "ignore_cb"), unchanged(o, n, "states.step", "states.state", "_params.cond_code_eof"),
          len(emitted(n)) == 0, len(inds(n)) == 0)), ("C14",)),
      Clause("C14.src.cancel", lambda o, n, r: Implies_(And_(Eq_(_fh(o), FH.NOTICE_OF_CANCELLATION), Not_(in_cancel_exchange(o.self))), And_(
          _one_cb(o, n, "notice_of_cancellation_cb"), _cancel_eof_issued(o, n, o.cond))), ("C14", "C04", "C12")),
      # CFDP 4.11.2.2.3 (property C04): a fault while the EOF (cancel) is in flight abandons the transaction
      Clause("C14.src.cancel_during_cancel_abandons", lambda o, n, r: Implies_(And_(
          Eq_(_fh(o), FH.NOTICE_OF_CANCELLATION), in_cancel_exchange(o.self)), _abandoned(o, n)), ("C14", "C04")),
      Clause("C14.src.abandon", lambda o, n, r: Implies_(Eq_(_fh(o), FH.ABANDON_TRANSACTION), And_(
          _one_cb(o, n, "abandoned_cb"), eq(n.self.states.state, IDLE), eq(n.self.states.step, STEP.IDLE),
          len(emitted(n)) == 0, len(inds(n)) == 0, n.self._pdus_to_be_sent.length() == 0)), ("C14",)),
      Clause("C14.src.suspend_unimplemented", lambda o, n, r: Implies_(Eq_(_fh(o), FH.NOTICE_OF_SUSPENSION), And_(
          _one_cb(o, n, "notice_of_suspension_cb"), unchanged(o, n, "states.step", "states.state"),
          len(emitted(n)) == 0)), ("C14",)),
      Clause("state.after_fault", lambda o, n, r: And_(
          Implies_(Eq_(_fh(o), FH.IGNORE_ERROR), unchanged(o, n, "states.step", "states.state")),
          Implies_(Eq_(_fh(o), FH.ABANDON_TRANSACTION), eq(n.self.states.state, IDLE)),
          Implies_(And_(Eq_(_fh(o), FH.NOTICE_OF_CANCELLATION), in_cancel_exchange(o.self)), eq(n.self.states.state, IDLE)),
          Implies_(And_(Eq_(_fh(o), FH.NOTICE_OF_CANCELLATION), Not_(in_cancel_exchange(o.self))),
                   _cancel_eof_issued_state_only(o, n, o.cond))), ("C14", "C04")),
  ] + inv_clauses(("C14",)),
  effects={"vfs", "user", "timer", "fault_cb"}, modular=False)


# ==============================================================================================
# C04 (sender): EOF positive acknowledgement procedure
# ==============================================================================================
def _pa(h):
    return h._params.positive_ack_params


def _pa_expired(o):
    return B(val(_pa(o.self).ack_timer).expired)


def _pa_limit_hit(o):
    return _pa(o.self).ack_counter + 1 >= rcfg(o.self).positive_ack_timer_expiration_limit


def _in_eof_ack_wait(o):
    # the queue is empty whenever the timer can have expired (an EOF queued in this very call has a fresh timer)
    h = o.self
    return And_(step_is(h, STEP.WAITING_FOR_EOF_ACK), ne(h.states.state, IDLE), Implies_(_pa_expired(o), qempty(h)))


def _eof_as_before(o, n):
    """the re-sent EOF equals the one sent first: condition in flight, size = progress, checksum of that prefix"""
    h = o.self
    return one_eof(o, n, val(h._params.cond_code_eof), h._params.fp.progress)


C("_handle_positive_ack_procedures", arg_types=SELF, props=("C04",), result=None,
  requires=REQ_INV + DEFAULT + [("in_eof_ack_wait", _in_eof_ack_wait)],
  modifies=NOC_MOD + ["self._params.positive_ack_params.ack_timer.expired"],
  cond_frames=[("C04.src.not_expired_is_noop", lambda o: Not_(_pa_expired(o)), [])],
  ensures=[
      Clause("C04.src.not_expired_silent", lambda o, n, r: Implies_(Not_(_pa_expired(o)), len(n.trace) == 0), ("C04",)),
      Clause("C04.src.resend_below_limit", lambda o, n, r: Implies_(And_(_pa_expired(o), Not_(_pa_limit_hit(o))), And_(
          _pa(n.self).ack_counter == _pa(o.self).ack_counter + 1, _eof_as_before(o, n), no_fault(n),
          len(timer_resets(n)) == 1, step_is(n.self, STEP.WAITING_FOR_EOF_ACK), eof_sent_ind_ok(o, n),
          unchanged(o, n, "_params.fp.progress", "_params.cond_code_eof"))), ("C04", "C09", "C12")),
      Clause("C04.src.no_fault_before_limit", lambda o, n, r: Implies_(Not_(And_(_pa_expired(o), _pa_limit_hit(o))),
                                                                     no_fault(n)), ("C04",)),
      Clause("C04.src.cancel_on_first_limit", lambda o, n, r: Implies_(And_(
          _pa_expired(o), _pa_limit_hit(o), Not_(in_cancel_exchange(o.self))), And_(
          declared(n, CC.POSITIVE_ACK_LIMIT_REACHED, "notice_of_cancellation_cb"),
          _cancel_eof_issued(o, n, CC.POSITIVE_ACK_LIMIT_REACHED))), ("C04", "C14")),
      Clause("C04.src.abandon_when_cancel_exchange_times_out", lambda o, n, r: Implies_(And_(
          _pa_expired(o), _pa_limit_hit(o), in_cancel_exchange(o.self)), _abandoned(o, n)), ("C04",)),
  ] + inv_clauses(("C04",)),
  effects={"vfs", "user", "timer", "fault_cb"}, modular=False)


# ---------------------------------------------------------------------------------------------- EOF sent
C("_handle_eof_sent", arg_types={**SELF, "cancel_eof": T.Bool}, props=("C13", "C04"), result=None,
  requires=REQ_INV + [("active", active_with_file), ("queue_has_eof", lambda o: present(o.self._params.cond_code_eof))],
  modifies=NOC_MOD,
  ensures=[
      Clause("C04.src.eof_starts_ack_procedure", lambda o, n, r: Implies_(eq(mode(o.self), ACK), And_(
          step_is(n.self, STEP.WAITING_FOR_EOF_ACK), _pa(n.self).ack_counter == 0,
          opt(_pa(n.self).ack_timer, lambda t: Not_(B(t.expired)), False))), ("C04",)),
      Clause("C13.src.closure_arms_check_timer", lambda o, n, r: Implies_(And_(
          eq(mode(o.self), UNACK), Not_(B(o.cancel_eof)), B(o.self._params.closure_requested)), And_(
          step_is(n.self, STEP.WAITING_FOR_FINISHED), opt(n.self._params.check_timer, lambda t: And_(
              Not_(B(t.expired)), _timer_for_sending_entity(t)), False))), ("C13",)),
      Clause("C02.src.no_closure_completes", lambda o, n, r: Implies_(And_(
          eq(mode(o.self), UNACK), Not_(B(o.cancel_eof)), Not_(B(o.self._params.closure_requested))),
          step_is(n.self, STEP.NOTICE_OF_COMPLETION)), ("C02", "C13")),
      Clause("C12.src.unacked_cancel_ends", lambda o, n, r: Implies_(And_(eq(mode(o.self), UNACK), B(o.cancel_eof)),
                                                                   And_(eq(n.self.states.state, IDLE), eq(n.self.states.step, STEP.IDLE))), ("C12",)),
      Clause("silent", lambda o, n, r: len([e for e in n.trace if e["kind"] in ("pdu", "ind", "fault_cb", "vfs")]) == 0, ("C13",)),
  ],
  effects={"timer"}, modular=False)


# ==============================================================================================
# C13 / C01 / C08: waiting for the Finished PDU
# ==============================================================================================
def _holder_pdu(o):
    return val(o.packet_holder.pdu) if isinstance(o.packet_holder.pdu, SOpt) else o.packet_holder.pdu


def _is(o, cls):
    p = _holder_pdu(o)
    return p is not None and p.cls is cls


HOLDER = {"packet_holder": T.Obj(PduHolder)}


# PDU kinds that pass the sender's admission check (_check_inserted_packet rejects the others, see its contract)
ADMITTED_PDU = T.OneOf([FinishedPdu, NakPdu, AckPdu, KeepAlivePdu], allow_none=True)


def _holder_setup(interp, roots):
    """the holder wraps one of the PDU kinds the sender admits, or nothing (case split)"""
    roots["packet_holder"].f["pdu"] = interp.fresh_value(ADMITTED_PDU, "packet")


def _check_timer_expired(o):
    return opt(o.self._params.check_timer, lambda t: B(t.expired), False)


def _waiting_for_finished(o):
    h = o.self
    return And_(step_is(h, STEP.WAITING_FOR_FINISHED), ne(h.states.state, IDLE), Implies_(_check_timer_expired(o), qempty(h)),
                pdu_wf(_holder_pdu(o)))


C("_handle_wait_for_finish", arg_types={**SELF, **HOLDER}, props=("C13", "C01", "C08"), result=None, setup=_holder_setup,
  requires=REQ_INV + DEFAULT + [("waiting_for_finished", _waiting_for_finished),
                                ("nak_only_in_acked_mode", lambda o: Implies_(_is(o, NakPdu), eq(mode(o.self), ACK)) if _is(o, NakPdu) else True)],
  modifies=NOC_MOD + ["self._params.ack_params.step_before_retransmission"],
  cond_frames=[
      ("C13.src.nothing_happens_while_timer_runs", lambda o: (Not_(_check_timer_expired(o))
                                                              if not (_is(o, FinishedPdu) or _is(o, NakPdu)) else False), [], {"silent": True}),
      ("C08.nak_only_queues_and_switches_step", lambda o: True if _is(o, NakPdu) else False,
       QMOD + ["self.states.step", "self._params.ack_params.step_before_retransmission"]),
      ("C01.src.finished_only_recorded_and_acked", lambda o: True if _is(o, FinishedPdu) else False,
       QMOD + ["self.states.step", "self._params.finished_params"]),
  ],
  ensures=[
      Clause("C01.src.relays_finished_params", lambda o, n, r: (
          And_(opt(n.self._params.finished_params, lambda fp: fp.oid == _holder_pdu(o).finished_params.oid, False),
               Implies_(eq(mode(o.self), UNACK), step_is(n.self, STEP.NOTICE_OF_COMPLETION)),
               Implies_(eq(mode(o.self), ACK), step_is(n.self, STEP.SENDING_ACK_OF_FINISHED)))
          if _is(o, FinishedPdu) else True), ("C01", "C02")),
      Clause("C07.src.finished_is_acknowledged", lambda o, n, r: (
          Implies_(eq(mode(o.self), ACK), (
              len(emitted(n)) == 1 and emitted(n)[0].cls is AckPdu and And_(
                  eq(emitted(n)[0].directive_code_of_acked_pdu, DirectiveType.FINISHED_PDU),
                  Eq_(emitted(n)[0].condition_code_of_acked_pdu, _holder_pdu(o).finished_params.condition_code),
                  eq(emitted(n)[0].pdu_conf.direction, Direction.TOWARDS_RECEIVER),
                  Eq_(emitted(n)[0].pdu_conf.transaction_seq_num.value, o.self._params.pdu_conf.transaction_seq_num.value))))
          if _is(o, FinishedPdu) else True), ("C07", "C02")),
      Clause("C13.src.check_limit_cancels", lambda o, n, r: (
          Implies_(_check_timer_expired(o), And_(
              Implies_(Not_(in_cancel_exchange(o.self)), And_(
                  declared(n, CC.CHECK_LIMIT_REACHED, "notice_of_cancellation_cb"),
                  _cancel_eof_issued(o, n, CC.CHECK_LIMIT_REACHED))),
              Implies_(in_cancel_exchange(o.self), _abandoned(o, n))))
          if not (_is(o, FinishedPdu) or _is(o, NakPdu)) else True), ("C13", "C14")),
      Clause("C13.src.no_fault_while_timer_runs", lambda o, n, r: (
          Implies_(Not_(_check_timer_expired(o)), And_(len(n.trace) == 0, unchanged(o, n, "states.step", "states.state")))
          if not (_is(o, FinishedPdu) or _is(o, NakPdu)) else True), ("C13", "C04")),
  ] + inv_clauses(("C13",)),
  raises=[RaiseClause("C08.invalid_nak", X.InvalidNakPdu, when=lambda o: _is(o, NakPdu), props=("C08", "C10"),
                      modifies=["self._pdus_to_be_sent", "self.states._num_packets_ready"],
                      post=lambda o, n: inv_formula(n.self))],
  effects={"vfs", "user", "timer", "fault_cb"}, modular=False)


# ==============================================================================================
# C07 / C08: File Data PDU construction, retransmission
# ==============================================================================================
from stubs.cfdp import fs_read  # noqa: E402


def fd_pdu_ok(o, pdu, offset, length_requested):
    """a File Data PDU for [offset, offset+len) of the source file with the transaction's header fields"""
    h = o.self
    c = h._params.pdu_conf
    return And_(Eq_(pdu.offset, offset),
                Eq_(pdu.file_data.b, fs_read(FS0, src_file(h).p, to_z3_int(offset), to_z3_int(length_requested))),
                eq(pdu.pdu_conf.direction, Direction.TOWARDS_RECEIVER), Eq_(pdu.pdu_conf.trans_mode, c.trans_mode),
                Eq_(pdu.pdu_conf.transaction_seq_num.value, c.transaction_seq_num.value),
                Eq_(pdu.pdu_conf.source_entity_id.value, c.source_entity_id.value),
                Eq_(pdu.pdu_conf.dest_entity_id.value, c.dest_entity_id.value),
                Eq_(pdu.pdu_conf.source_entity_id.byte_len, pdu.pdu_conf.dest_entity_id.byte_len) if False else True,
                Eq_(pdu.pdu_conf.crc_flag, c.crc_flag), Eq_(pdu.pdu_conf.file_flag, c.file_flag))


def sending_file(o):
    """a started file transfer (not metadata only): source file known, segment length valid"""
    h = o.self
    return And_(ne(h.states.state, IDLE), Not_(step_is(h, STEP.IDLE, STEP.TRANSACTION_START)),
                Not_(B(h._params.fp.metadata_only)))


C("_prepare_file_data_pdu", arg_types={**SELF, "offset": T.Int, "read_len": T.Int}, props=("C07", "C08"), result=None,
  requires=REQ_INV + [("sending_file", sending_file),
                      ("chunk", lambda o: And_(0 <= o.offset, 0 <= o.read_len, o.read_len <= o.self._params.fp.segment_len,
                                              o.self._params.fp.segment_len <= 65527))],
  modifies=QMOD,
  ensures=[
      Clause("C07.file_data_pdu", lambda o, n, r: len(emitted(n)) == 1 and emitted(n)[0].cls is FileDataPdu and
             fd_pdu_ok(o, emitted(n)[0], o.offset, o.read_len), ("C07", "C08")),
      Clause("C16.read_through_vfs", lambda o, n, r: len(vfs_ops(n)) == 1 and vfs_ops(n)[0]["op"] == "read_data" and And_(
          Eq_(vfs_ops(n)[0]["path"], src_file(o.self)), Eq_(vfs_ops(n)[0]["offset"], o.offset),
          Eq_(vfs_ops(n)[0]["read_len"], o.read_len)), ("C16", "C07")),
      Clause("queue.plus_one", lambda o, n, r: And_(qlen(n.self) == qlen(o.self) + 1,
                                                   to_z3_int(n.self.states._num_packets_ready) == qlen(n.self)), ("C07", "C08")),
      Clause("silent", lambda o, n, r: len(inds(n)) == 0 and len(fault_cbs(n)) == 0, ("C07",)),
  ],
  effects={"vfs"}, modular=False)


def _seg(o):
    return o.segment_req


def _req_is_metadata(o):
    a, b = _seg(o)
    return And_(a == 0, b == 0)


def _req_invalid(o):
    a, b = _seg(o)
    pr = o.self._params.fp.progress
    return And_(Not_(_req_is_metadata(o)), Or_(b < a, a > pr, b > pr))


def _sr_loop_inv(I, pre, env, idx, n):
    a, b = pre.segment_req
    h0, h = pre.self, env.self
    return [
        ("tiling_position", And_(env.current_offset + env.missing_chunk_len == b, a <= env.current_offset,
                                 env.missing_chunk_len >= 0)),
        ("queue_counter", And_(to_z3_int(h.states._num_packets_ready) == qlen(h), qlen(h) >= qlen(h0))),
    ]


def _sr_body_post(I, pre, head, after, events, idx):
    """each iteration emits exactly one File Data PDU: the next chunk of the requested range"""
    pd = [e["pdu"] for e in events if e["kind"] == "pdu"]
    others = [e for e in events if e["kind"] in ("ind", "fault_cb")]
    if len(pd) != 1 or pd[0].cls is not FileDataPdu or others:
        return [("one_file_data_pdu_per_chunk", False)]
    p = pd[0]
    seglen = pre.self._params.fp.segment_len
    ln = after.current_offset - head.current_offset
    return [
        ("chunk_at_current_offset", fd_pdu_ok(pre, p, head.current_offset, ln)),
        ("chunk_within_segment_len", And_(1 <= ln, ln <= seglen, ln <= head.missing_chunk_len)),
        ("advances_by_chunk", And_(after.missing_chunk_len == head.missing_chunk_len - ln)),
    ]


def _md_pdu_ok(o, n):
    """exactly one Metadata PDU, carrying the request's names, the true file size, the negotiated checksum type and
    closure flag (metadata only: no names, size 0, null checksum)"""
    ps = emitted(n)
    if len(ps) != 1 or ps[0].cls is not MetadataPdu:
        return False
    m = ps[0]
    h = o.self
    c = h._params.pdu_conf
    req = val(h._put_req)
    from stubs.cfdp import path_posix
    hdr = And_(eq(m.pdu_conf.direction, Direction.TOWARDS_RECEIVER), Eq_(m.pdu_conf.trans_mode, c.trans_mode),
               Eq_(m.pdu_conf.transaction_seq_num.value, c.transaction_seq_num.value),
               Eq_(m.pdu_conf.source_entity_id.value, c.source_entity_id.value),
               Eq_(m.pdu_conf.dest_entity_id.value, c.dest_entity_id.value), Eq_(m.pdu_conf.crc_flag, c.crc_flag),
               Eq_(m.pdu_conf.file_flag, c.file_flag), iff(B(m.closure_requested), B(h._params.closure_requested)))
    if m.source_file_name is None or m.dest_file_name is None:
        body = And_(isnone(req.source_file), isnone(req.dest_file), m.source_file_name is None, m.dest_file_name is None,
                    Eq_(m.file_size, 0), eq(m.checksum_type, ChecksumType.NULL_CHECKSUM))
    else:
        sf, df = val(req.source_file), val(req.dest_file)
        body = And_(Not_(isnone(req.source_file)), Not_(isnone(req.dest_file)),
                    Eq_(m.file_size, val(h._params.fp.file_size)), Eq_(m.checksum_type, rcfg(h).crc_type),
                    Eq_(m.source_file_name.s, path_posix(sf.p)), Eq_(m.dest_file_name.s, path_posix(df.p)))
    return And_(hdr, body)


C("_prepare_metadata_pdu", arg_types=SELF, props=("C07", "C08"), result=None,
  requires=REQ_INV + [("active", active_with_file)],
  modifies=QMOD,
  ensures=[
      Clause("C07.metadata_pdu", lambda o, n, r: _md_pdu_ok(o, n), ("C07", "C08")),
      Clause("queue.plus_one", lambda o, n, r: And_(qlen(n.self) == qlen(o.self) + 1,
                                                   to_z3_int(n.self.states._num_packets_ready) == qlen(n.self)), ("C07", "C08")),
      Clause("silent", lambda o, n, r: len(inds(n)) == 0 and len(fault_cbs(n)) == 0 and len(vfs_ops(n)) == 0, ("C07",)),
  ],
  effects=set(), modular=False)


# (C07 too: a re-transmitted File Data PDU is a File Data PDU of the stream - it carries the file's bytes at its offset and is no
# longer than the effective segment length; that is the per-iteration obligation of the loop)
C("_handle_segment_req", arg_types={**SELF, "segment_req": T.Pair}, props=("C08", "C07", "C03", "C12"), result=None,
  requires=REQ_INV + [("active", active_with_file),
                      ("seglen_bound", lambda o: o.self._params.fp.segment_len <= 65527),
                      ("unsigned_offsets", lambda o: And_(o.segment_req[0] >= 0, o.segment_req[1] >= 0))],
  modifies=QMOD,
  ensures=[
      Clause("C08.metadata_request_resends_metadata", lambda o, n, r: Implies_(_req_is_metadata(o), _md_pdu_ok(o, n)), ("C08", "C03")),
      Clause("C08.valid_range_is_tiled", lambda o, n, r: Implies_(Not_(_req_is_metadata(o)), And_(
          Not_(_req_invalid(o)),
          # the loop ran to completion (body obligations: one chunk per iteration, starting at `start`, contiguous,
          # each within the segment length; exit: nothing of [start, end) is left) or the range was empty
          len(emitted(n)) == 0 and len(inds(n)) == 0 and len(fault_cbs(n)) == 0)), ("C08", "C03")),
      Clause("queue.counter", lambda o, n, r: And_(to_z3_int(n.self.states._num_packets_ready) == qlen(n.self),
                                                  qlen(n.self) >= qlen(o.self)), ("C08",)),
  ],
  raises=[RaiseClause("C08.invalid_request_rejected", X.InvalidNakPdu, when=_req_invalid, iff=True, props=("C08",),
                      modifies=[], post=lambda o, n: len(n.trace) == 0)],
  loops={0: LoopSpec(_sr_loop_inv, modifies=QMOD, props=("C08", "C07", "C03", "C12"), body_post=_sr_body_post,
                     variant=lambda I, env, idx, n: env.missing_chunk_len)},
  effects={"vfs"}, modular=True)
CONTRACTS[-1].inline_callees = {"SourceHandler._prepare_file_data_pdu", "SourceHandler._prepare_metadata_pdu"}


def _hr_is_nak(o):
    return _is(o, NakPdu)


def _hr_loop_inv(I, pre, env, idx, n):
    h0, h = pre.self, env.self
    return [
        ("queue_counter", And_(to_z3_int(h.states._num_packets_ready) == qlen(h), qlen(h) >= qlen(h0))),
    ]


C("__handle_retransmission", arg_types={**SELF, **HOLDER}, props=("C08", "C03"), result=T.Bool, setup=_holder_setup,
  requires=REQ_INV + [("active", active_with_file), ("pdu_wf", lambda o: pdu_wf(_holder_pdu(o))),
                      ("seglen_bound", lambda o: o.self._params.fp.segment_len <= 65527),
                      ("acked", lambda o: eq(mode(o.self), ACK)),
                      ("dispatch_step", lambda o: step_is(o.self, STEP.SENDING_FILE_DATA, STEP.WAITING_FOR_EOF_ACK,
                                                           STEP.WAITING_FOR_FINISHED))],
  modifies=QMOD + ["self.states.step", "self._params.ack_params.step_before_retransmission"],
  cond_frames=[("C08.no_nak_no_effect", lambda o: True if not _hr_is_nak(o) else False, [], {"silent": True})],
  ensures=[
      Clause("C08.returns_whether_nak", lambda o, n, r: (r if isinstance(r, bool) else B(r)) if _hr_is_nak(o)
             else (not r if isinstance(r, bool) else Not_(B(r))), ("C08", "C03")),
      Clause("C08.resume_point_recorded", lambda o, n, r: (And_(
          step_is(n.self, STEP.RETRANSMITTING),
          opt(n.self._params.ack_params.step_before_retransmission, lambda s: Eq_(s, o.self.states.step), False))
          if _hr_is_nak(o) else True), ("C08", "C03")),
      Clause("queue.counter", lambda o, n, r: And_(to_z3_int(n.self.states._num_packets_ready) == qlen(n.self),
                                                  qlen(n.self) >= qlen(o.self)), ("C08", "C03")),
  ] + inv_clauses(("C08", "C03")),
  raises=[RaiseClause("C08.invalid_nak", X.InvalidNakPdu, when=lambda o: _hr_is_nak(o), props=("C08", "C10"), modifies=QMOD,
                      post=lambda o, n: And_(to_z3_int(n.self.states._num_packets_ready) == qlen(n.self)))],
  loops={0: LoopSpec(_hr_loop_inv, modifies=QMOD, props=("C08",))},
  effects={"vfs"}, modular=True)


C("_fsm_advancement_after_packets_were_sent", arg_types=SELF, props=("C08", "C07", "C10"), result=None,
  requires=REQ_INV + [("busy", lambda o: ne(o.self.states.state, IDLE))],
  modifies=["self.states.step", "self._params.cond_code_eof"],
  ensures=[
      Clause("C08.resume_where_it_was", lambda o, n, r: Implies_(step_is(o.self, STEP.RETRANSMITTING),
             Eq_(n.self.states.step, val(o.self._params.ack_params.step_before_retransmission))), ("C08",)),
      Clause("C07.eof_only_after_all_data", lambda o, n, r: And_(
          Implies_(step_is(o.self, STEP.SENDING_FILE_DATA), And_(
              iff(step_is(n.self, STEP.SENDING_EOF), o.self._params.fp.progress == val(o.self._params.fp.file_size)),
              Implies_(Not_(step_is(n.self, STEP.SENDING_EOF)), step_is(n.self, STEP.SENDING_FILE_DATA)),
              Implies_(step_is(n.self, STEP.SENDING_EOF), opt(n.self._params.cond_code_eof, lambda c: eq(c, CC.NO_ERROR), False)))),
          Implies_(step_is(o.self, STEP.SENDING_METADATA), step_is(n.self, STEP.SENDING_FILE_DATA)),
          Implies_(step_is(o.self, STEP.SENDING_ACK_OF_FINISHED), step_is(n.self, STEP.NOTICE_OF_COMPLETION)),
          Implies_(Not_(step_is(o.self, STEP.SENDING_FILE_DATA, STEP.SENDING_METADATA, STEP.SENDING_ACK_OF_FINISHED,
                                STEP.RETRANSMITTING)), unchanged(o, n, "states.step", "_params.cond_code_eof"))), ("C07", "C02")),
      Clause("silent", lambda o, n, r: len(n.trace) == 0, ("C08",)),
  ] + inv_clauses(("C08",)),
  raises=[RaiseClause("C10.unretrieved_truthful", X.UnretrievedPdusToBeSent, iff=True,
                      when=lambda o: qlen(o.self) > 0, props=("C10",), modifies=[])],
  effects=set(), modular=True)


# ==============================================================================================
# C07: progressing File Data PDUs (tiling), segment length, PDU configuration, sequence numbers
# ==============================================================================================
def _remaining(h):
    return val(h._params.fp.file_size) - h._params.fp.progress


def _min(a, b):
    return z3.If(a <= b, a, b)


C("_prepare_progressing_file_data_pdu", arg_types=SELF, props=("C07",), result=None,
  requires=REQ_INV + [("sending_file", sending_file), ("in_step", lambda o: step_is(o.self, STEP.SENDING_FILE_DATA)),
                      ("data_left", lambda o: o.self._params.fp.progress < val(o.self._params.fp.file_size)),
                      ("seglen_bound", lambda o: o.self._params.fp.segment_len <= 65527)],
  modifies=QMOD + ["self._params.fp.progress"],
  ensures=[
      # the next tile: starts where the previous one ended, is as long as the segment length allows, never empty
      Clause("C07.next_tile", lambda o, n, r: len(emitted(n)) == 1 and emitted(n)[0].cls is FileDataPdu and And_(
          fd_pdu_ok(o, emitted(n)[0], o.self._params.fp.progress, _min(o.self._params.fp.segment_len, _remaining(o.self))),
          n.self._params.fp.progress == o.self._params.fp.progress + _min(o.self._params.fp.segment_len, _remaining(o.self)),
          n.self._params.fp.progress > o.self._params.fp.progress,
          n.self._params.fp.progress <= val(o.self._params.fp.file_size)), ("C07",)),
      Clause("queue.plus_one", lambda o, n, r: And_(qlen(n.self) == qlen(o.self) + 1,
                                                   to_z3_int(n.self.states._num_packets_ready) == qlen(n.self)), ("C07",)),
      Clause("silent", lambda o, n, r: len(inds(n)) == 0 and len(fault_cbs(n)) == 0, ("C07",)),
  ] + inv_clauses(("C07",)),
  effects={"vfs"}, modular=False)


def _hdr_len(c):
    return 4 + c.source_entity_id.byte_len + c.dest_entity_id.byte_len + c.transaction_seq_num.byte_len


def _derived_seg_len(h):
    c = h._params.pdu_conf
    return rcfg(h).max_packet_len - (_hdr_len(c) + z3.If(to_z3_int(c.file_flag) == int(LargeFileFlag.LARGE), 8, 4)
                                     + z3.If(to_z3_int(c.crc_flag) == int(CrcFlag.WITH_CRC), 2, 0))


C("_calculate_max_file_seg_len", arg_types=SELF, props=("C07", "C19"), result=None,
  requires=REQ_INV_LIGHT + [("has_cfg", lambda o: And_(present(o.self._params.remote_cfg), conf_wf(o.self._params.pdu_conf))),
                      ("cfg_valid", lambda o: cfg_valid(rcfg(o.self), o.self._params.pdu_conf)),
                      ("max_packet_len_fits_pdu_length_field", lambda o: rcfg(o.self).max_packet_len <= 65535)],
  modifies=["self._params.fp.segment_len"],
  ensures=[
      Clause("C19.segment_len_is_min_of_cfg_and_packet_len", lambda o, n, r: Eq_(n.self._params.fp.segment_len, opt(
          rcfg(o.self).max_file_segment_len, lambda m: _min(m, _derived_seg_len(o.self)), True) if False else z3.If(
          rcfg(o.self).max_file_segment_len.isnone, _derived_seg_len(o.self),
          _min(rcfg(o.self).max_file_segment_len.val, _derived_seg_len(o.self)))), ("C19", "C07")),
      Clause("C07.segment_len_positive_and_bounded", lambda o, n, r: And_(
          n.self._params.fp.segment_len >= 1, n.self._params.fp.segment_len <= 65527), ("C07",)),
      # a File Data PDU with a full segment fits the maximum packet length
      Clause("C07.file_data_pdu_fits_max_packet_len", lambda o, n, r:
             rcfg(o.self).max_packet_len - _derived_seg_len(o.self) + n.self._params.fp.segment_len <= rcfg(o.self).max_packet_len,
             ("C07",)),
  ],
  effects=set(), modular=False)


def _seq_events(n):
    return [e for e in n.trace if e["kind"] == "seqnum"]


C("_get_next_transfer_seq_num", arg_types=SELF, props=("C19", "C07"), result=None,
  requires=REQ_INV_LIGHT,
  modifies=["self._params.pdu_conf.transaction_seq_num"],
  ensures=[
      Clause("C19.next_provider_value_once", lambda o, n, r: len(_seq_events(n)) == 1 and
             Eq_(n.self._params.pdu_conf.transaction_seq_num.value, _seq_events(n)[0]["value"]), ("C19", "C07")),
      Clause("C07.seq_num_width_is_provider_width", lambda o, n, r: And_(
          Eq_(n.self._params.pdu_conf.transaction_seq_num.byte_len * 8, o.self.seq_num_provider.max_bit_width),
          ubf_inv(n.self._params.pdu_conf.transaction_seq_num)), ("C19", "C07")),
  ],
  raises=[RaiseClause("C19.invalid_provider_width", ValueError, iff=True, props=("C19",), modifies=[],
                      when=lambda o: Not_(Or_(*[o.self.seq_num_provider.max_bit_width == k for k in (8, 16, 32)])))],
  effects={"seqnum"}, modular=False)
_GET_SEQ = CONTRACTS[-1]


C("_prepare_pdu_conf", arg_types={**SELF, "file_size": T.Opt(T.Int)}, props=("C07",), result=None,
  requires=REQ_INV_LIGHT + [("busy", lambda o: And_(ne(o.self.states.state, IDLE), present(o.file_size))),
                      ("size_is_fp_size", lambda o: Eq_(o.file_size, o.self._params.fp.file_size))],
  modifies=["self._params.pdu_conf.file_flag", "self._params.pdu_conf.seg_ctrl", "self._params.pdu_conf.source_entity_id",
            "self._params.pdu_conf.dest_entity_id", "self._params.pdu_conf.crc_flag", "self._params.pdu_conf.direction"],
  ensures=[
      Clause("C07.ids_equal_width_same_values", lambda o, n, r: (lambda c, loc, dst: And_(
          Eq_(c.source_entity_id.value, loc.value), Eq_(c.dest_entity_id.value, dst.value),
          Eq_(c.source_entity_id.byte_len, c.dest_entity_id.byte_len),
          Eq_(c.source_entity_id.byte_len, z3.If(loc.byte_len >= dst.byte_len, loc.byte_len, dst.byte_len)),
          ubf_inv(c.source_entity_id), ubf_inv(c.dest_entity_id)))(
          n.self._params.pdu_conf, o.self.cfg.local_entity_id, val(o.self._put_req).destination_id), ("C07",)),
      Clause("C07.crc_flag_from_remote_cfg", lambda o, n, r: iff(
          eq(n.self._params.pdu_conf.crc_flag, CrcFlag.WITH_CRC), B(rcfg(o.self).crc_on_transmission)), ("C07",)),
      Clause("C07.large_file_flag_iff_needed", lambda o, n, r: Implies_(Not_(B(o.self._params.fp.metadata_only)), iff(
          eq(n.self._params.pdu_conf.file_flag, LargeFileFlag.LARGE), val(o.file_size) > 2 ** 32 - 1)), ("C07",)),
      Clause("C07.direction_towards_receiver", lambda o, n, r: eq(n.self._params.pdu_conf.direction, Direction.TOWARDS_RECEIVER), ("C07",)),
      Clause("C07.mode_kept", lambda o, n, r: Eq_(n.self._params.pdu_conf.trans_mode, o.self._params.pdu_conf.trans_mode), ("C07", "C19")),
  ],
  effects=set(), modular=False)


# ---------------------------------------------------------------------------------------------- EOF PDU
C("_prepare_eof_pdu", arg_types={**SELF, "checksum": T.Bytes}, props=("C07", "C15"), result=None,
  requires=REQ_INV + [("active", active_with_file), ("code_set", lambda o: present(o.self._params.cond_code_eof)),
                      ("four_bytes", lambda o: (len(o.checksum) if isinstance(o.checksum, bytes) else o.checksum.length()) == 4)],
  modifies=QMOD,
  ensures=[
      Clause("C07.eof_fields", lambda o, n, r: len(emitted(n)) == 1 and emitted(n)[0].cls is EofPdu and And_(
          Eq_(emitted(n)[0].file_size, o.self._params.fp.progress), Eq_(emitted(n)[0].file_checksum, o.checksum),
          Eq_(emitted(n)[0].condition_code, val(o.self._params.cond_code_eof)),
          eq(emitted(n)[0].pdu_conf.direction, Direction.TOWARDS_RECEIVER),
          Eq_(emitted(n)[0].pdu_conf.transaction_seq_num.value, o.self._params.pdu_conf.transaction_seq_num.value),
          Eq_(emitted(n)[0].pdu_conf.trans_mode, mode(o.self))), ("C07",)),
      Clause("C15.eof_sent_indication", lambda o, n, r: eof_sent_ind_ok(o, n), ("C15",)),
      Clause("queue.plus_one", lambda o, n, r: And_(qlen(n.self) == qlen(o.self) + 1,
                                                   to_z3_int(n.self.states._num_packets_ready) == qlen(n.self)), ("C07",)),
  ],
  effects={"user"}, modular=False)


C("_checksum_calculation", arg_types={**SELF, "size_to_calculate": T.Opt(T.Int)}, props=("C09", "C16"), result=T.Bytes,
  requires=REQ_INV + [("active", active_with_file), ("size", lambda o: opt(o.size_to_calculate, lambda s: s >= 0, False))],
  modifies=[],
  ensures=[
      Clause("C09.src.checksum_of_prefix_via_filestore", lambda o, n, r: (
          And_(B(o.self._params.fp.metadata_only), r == bytes(4)) if isinstance(r, bytes) else And_(
              Not_(B(o.self._params.fp.metadata_only)), Eq_(r.b, ck_of_prefix(o.self, val(o.size_to_calculate))), r.length() == 4,
              len(vfs_ops(n)) == 1 and vfs_ops(n)[0]["op"] == "calculate_checksum" and And_(
                  Eq_(vfs_ops(n)[0]["segment_len"], o.self._params.fp.segment_len)))), ("C09", "C16")),
  ],
  effects={"vfs"}, modular=False)


# ---------------------------------------------------------------------------------------------- file data FSM
def _fd_fsm_pre(o):
    h = o.self
    return And_(step_is(h, STEP.SENDING_FILE_DATA), ne(h.states.state, IDLE), qempty(h), pdu_wf(_holder_pdu(o)),
                h._params.fp.segment_len <= 65527,
                # a NAK reaches this function only in acknowledged mode (admission check)
                (eq(mode(h), ACK) if _is(o, NakPdu) else True))


C("_sending_file_data_fsm", arg_types={**SELF, **HOLDER}, props=("C07", "C08", "C13"), result=T.Bool, setup=_holder_setup,
  requires=REQ_INV + [("in_file_data_step", _fd_fsm_pre)],
  modifies=QMOD + ["self._params.fp.progress", "self.states.step", "self._params.ack_params.step_before_retransmission",
                   "self._params.cond_code_eof", "self._params.check_timer"],
  ensures=[
      # C13 (F27, repaired): a metadata-only transaction with closure in unacknowledged mode waits for the Finished PDU under the
      # check timer, exactly like a file transfer after its EOF PDU; in every other case the timer is not touched
      Clause("C13.src.metadata_only_closure_arms_check_timer", lambda o, n, r: (True if _is(o, NakPdu) else And_(
          Implies_(And_(B(o.self._params.fp.metadata_only), B(o.self._params.closure_requested), eq(mode(o.self), UNACK)),
                   opt(n.self._params.check_timer, lambda t: And_(Not_(B(t.expired)), _timer_for_sending_entity(t)), False)),
          Implies_(Not_(And_(B(o.self._params.fp.metadata_only), B(o.self._params.closure_requested), eq(mode(o.self), UNACK))),
                   same_obj(n.self._params.check_timer, o.self._params.check_timer)))), ("C13", "C02")),
      Clause("C07.one_file_data_pdu_per_call", lambda o, n, r: (True if (_is(o, NakPdu)) else And_(
          Implies_(And_(Not_(B(o.self._params.fp.metadata_only)), o.self._params.fp.progress < val(o.self._params.fp.file_size)),
                   And_(qlen(n.self) == 1, n.self._params.fp.progress > o.self._params.fp.progress,
                        step_is(n.self, STEP.SENDING_FILE_DATA))),
          Implies_(Not_(And_(Not_(B(o.self._params.fp.metadata_only)), o.self._params.fp.progress < val(o.self._params.fp.file_size))),
                   And_(qlen(n.self) == 0, Eq_(n.self._params.fp.progress, o.self._params.fp.progress))))), ("C07",)),
      Clause("C02.empty_and_metadata_only_files", lambda o, n, r: (True if _is(o, NakPdu) else And_(
          Implies_(B(o.self._params.fp.empty_file), And_(step_is(n.self, STEP.SENDING_EOF),
                   opt(n.self._params.cond_code_eof, lambda c: eq(c, CC.NO_ERROR), False))),
          # (F25, repaired: in acknowledged mode the receiver always sends a Finished PDU that wants its ACK, closure or not)
          Implies_(B(o.self._params.fp.metadata_only), And_(
              Implies_(Or_(B(o.self._params.closure_requested), eq(mode(o.self), ACK)), step_is(n.self, STEP.WAITING_FOR_FINISHED)),
              Implies_(And_(Not_(B(o.self._params.closure_requested)), eq(mode(o.self), UNACK)),
                       step_is(n.self, STEP.NOTICE_OF_COMPLETION)))))), ("C02", "C07")),
      # C02: the call leaves the dispatcher early (result True) only after it queued a File Data PDU or serviced a NAK; when the
      # step changed to one that waits for the peer, the PDU handed to this very call is still looked at by the dispatcher
      Clause("C02.returns_early_only_after_emitting", lambda o, n, r: (True if _is(o, NakPdu) else Implies_(
          r if isinstance(r, bool) else B(r), And_(qlen(n.self) == qlen(o.self) + 1, step_is(n.self, STEP.SENDING_FILE_DATA)))),
          ("C02", "C07")),
      Clause("C08.nak_serviced_while_sending", lambda o, n, r: (And_(
          step_is(n.self, STEP.RETRANSMITTING), Eq_(n.self._params.fp.progress, o.self._params.fp.progress))
          if _is(o, NakPdu) else True), ("C08",)),
  ] + inv_clauses(("C07",)),
  raises=[RaiseClause("C08.invalid_nak", X.InvalidNakPdu, when=lambda o: _is(o, NakPdu), props=("C08", "C10"), modifies=QMOD,
                      post=lambda o, n: inv_formula(n.self))],
  effects={"vfs", "timer"}, modular=False)
for _c in CONTRACTS:
    if _c.fq.endswith("._sending_file_data_fsm") or _c.fq.endswith("._handle_wait_for_finish"):
        _c.cost_hint = 4


# ==============================================================================================
# C04: waiting for the ACK of the EOF PDU
# ==============================================================================================
C("_handle_waiting_for_ack", arg_types={**SELF, **HOLDER}, props=("C04", "C08"), result=None, setup=_holder_setup,
  requires=REQ_INV + DEFAULT + [("in_eof_ack_wait", _in_eof_ack_wait), ("pdu_wf", lambda o: pdu_wf(_holder_pdu(o)))],
  modifies=NOC_MOD + ["self._params.positive_ack_params.ack_timer.expired", "self._params.ack_params.step_before_retransmission"],
  cond_frames=[
      ("C04.src.ack_only_changes_step", lambda o: True if _is(o, AckPdu) else False, ["self.states.step"], {"silent": True}),
      ("C04.src.nothing_happens_before_expiry", lambda o: (Not_(_pa_expired(o)) if not (_is(o, AckPdu) or _is(o, NakPdu)) else False),
       [], {"silent": True}),
      ("C08.nak_only_queues_and_switches_step", lambda o: True if _is(o, NakPdu) else False,
       QMOD + ["self.states.step", "self._params.ack_params.step_before_retransmission"]),
  ],
  ensures=[
      Clause("C04.src.ack_of_eof_ends_the_wait", lambda o, n, r: (
          Implies_(eq(_holder_pdu(o).directive_code_of_acked_pdu, DirectiveType.EOF_PDU), And_(
              step_is(n.self, STEP.WAITING_FOR_FINISHED), len(n.trace) == 0, eq(n.self.states.state, BUSY)))
          if _is(o, AckPdu) else True), ("C04", "C02")),
      Clause("C04.src.other_pdus_do_not_reset_the_count", lambda o, n, r: (
          Implies_(Not_(_pa_expired(o)), And_(len(n.trace) == 0, unchanged(
              o, n, "states.step", "_params.positive_ack_params.ack_counter")))
          if not (_is(o, AckPdu) or _is(o, NakPdu)) else True), ("C04",)),
      Clause("C04.src.expiry_handled_without_packet", lambda o, n, r: (
          Implies_(And_(_pa_expired(o), Not_(_pa_limit_hit(o))), And_(
              _pa(n.self).ack_counter == _pa(o.self).ack_counter + 1, _eof_as_before(o, n)))
          if not (_is(o, AckPdu) or _is(o, NakPdu)) else True), ("C04",)),
      Clause("state.transaction_config_kept_unless_reset", lambda o, n, r: Implies_(ne(n.self.states.state, IDLE), And_(
          Eq_(mode(n.self), mode(o.self)), same_obj(n.self._params.check_timer, o.self._params.check_timer),
          same_obj(n.self._params.remote_cfg, o.self._params.remote_cfg))), ("C04",)),
      Clause("C08.nak_serviced_while_waiting_for_ack", lambda o, n, r: (And_(
          step_is(n.self, STEP.RETRANSMITTING), unchanged(o, n, "_params.positive_ack_params.ack_counter", "_params.fp.progress",
                                                          "_params.cond_code_eof"))
          if _is(o, NakPdu) else True), ("C08",)),
  ] + inv_clauses(("C04",)),
  raises=[RaiseClause("C08.invalid_nak", X.InvalidNakPdu, when=lambda o: _is(o, NakPdu), props=("C08", "C10"), modifies=QMOD,
                      post=lambda o, n: inv_formula(n.self))],
  effects={"vfs", "user", "timer", "fault_cb"}, modular=False)
CONTRACTS[-1].cost_hint = 4


# ==============================================================================================
# C15 / C01: notice of completion at the sender
# ==============================================================================================
def _src_fin_ind_ok(o, n):
    sw = B(o.self.cfg.indication_cfg.transaction_finished_indication_required)
    es = inds(n, "transaction_finished_indication")
    if len(es) == 0:
        return Not_(sw)
    if len(es) != 1:
        return False
    par = es[0]["args"][0]
    fp_old = o.self._params.finished_params
    relayed = opt(fp_old, lambda f: par.finished_params.oid == f.oid, And_(
        eq(par.finished_params.condition_code, CC.NO_ERROR), eq(par.finished_params.delivery_code, DeliveryCode.DATA_COMPLETE),
        eq(par.finished_params.file_status, FileStatus.FILE_STATUS_UNREPORTED)))
    return And_(sw, tid_eq(par.transaction_id, val(o.self._params.transaction_id)), relayed)


C("_notice_of_completion", arg_types=SELF, props=("C15", "C01", "C11"), result=None,
  requires=REQ_INV + [("in_step", lambda o: And_(ne(o.self.states.state, IDLE), step_is(o.self, STEP.NOTICE_OF_COMPLETION)))],
  modifies=NOC_MOD,
  ensures=[
      Clause("C15.src.finished_indication_faithful", lambda o, n, r: _src_fin_ind_ok(o, n), ("C15", "C01")),
      # only an unacknowledged transfer without closure may report success without a Finished PDU
      Clause("C01.src.success_without_finished_pdu_only_without_closure", lambda o, n, r: Implies_(
          isnone(o.self._params.finished_params), True), ("C01",)),
      Clause("C11.src.back_to_idle_and_reset", lambda o, n, r: And_(
          eq(n.self.states.state, IDLE), eq(n.self.states.step, STEP.IDLE), isnone(n.self._params.transaction_id),
          isnone(n.self._params.remote_cfg), isnone(n.self._params.check_timer), isnone(n.self._params.cond_code_eof),
          isnone(n.self._params.finished_params), n.self._params.fp.progress == 0, Not_(B(n.self._params.fp.metadata_only)),
          Not_(B(n.self._params.fp.empty_file)), opt(n.self._params.fp.file_size, lambda s: s == 0, False),
          isnone(n.self._params.positive_ack_params.ack_timer), n.self._params.positive_ack_params.ack_counter == 0,
          Not_(B(n.self._params.closure_requested))), ("C11", "C02", "C07")),
      Clause("C15.nothing_else", lambda o, n, r: len(emitted(n)) == 0 and len(fault_cbs(n)) == 0 and
             len(inds(n)) == len(inds(n, "transaction_finished_indication")), ("C15",)),
  ] + inv_clauses(("C11", "C07")),
  effects={"user"}, modular=False)


# ==============================================================================================
# C20 / C10: admission check of the sender
# ==============================================================================================
def _packet(o):
    return o.packet


def _routed_to_dest(p):
    """the routing table of property C20"""
    if p.cls in (FileDataPdu, MetadataPdu, EofPdu, PromptPdu):
        return True
    if p.cls is AckPdu:
        return eq(p.directive_code_of_acked_pdu, DirectiveType.FINISHED_PDU)
    return False


PROTOCOL_EXC = (X.InvalidPduDirection, X.InvalidSourceId, X.InvalidDestinationId, X.InvalidTransactionSeqNum,
                X.InvalidPduForSourceHandler, X.PduIgnoredForSource, X.NoRemoteEntityCfgFound)


def _admit_setup(interp, roots):
    roots["packet"] = interp.fresh_value(T.OneOf(PDU_CLASSES), "packet")


C("_check_inserted_packet", arg_types={**SELF, "packet": T.Opaque}, props=("C20", "C10"), result=None, setup=_admit_setup,
  requires=REQ_INV + [("pdu_wf", lambda o: pdu_wf(o.packet))],
  modifies=[],
  ensures=[
      # C20: a PDU that the routing helper sends to the destination handler is always refused here
      Clause("C20.other_side_always_refused", lambda o, n, r: Not_(_routed_to_dest(o.packet)), ("C20",)),
      Clause("C10.admitted_pdu_belongs_to_this_transaction", lambda o, n, r: And_(
          eq(o.packet.pdu_conf.direction, Direction.TOWARDS_SENDER),
          Eq_(o.packet.pdu_conf.source_entity_id.value, o.self.cfg.local_entity_id.value),
          present(o.self._params.remote_cfg),
          Eq_(o.packet.pdu_conf.dest_entity_id.value, rcfg(o.self).entity_id.value),
          Eq_(o.packet.pdu_conf.transaction_seq_num.value, o.self._params.pdu_conf.transaction_seq_num.value),
          o.packet.cls in (FinishedPdu, NakPdu, AckPdu, KeepAlivePdu),
          Implies_(eq(mode(o.self), UNACK), o.packet.cls not in (NakPdu, KeepAlivePdu))), ("C10", "C20")),
      Clause("C10.silent", lambda o, n, r: len(n.trace) == 0, ("C10",)),
  ],
  raises=[
      # C20: "belongs to the other side" is only ever said about PDUs the router sends to the other side
      RaiseClause("C20.wrong_handler_only_for_other_side", X.InvalidPduForSourceHandler,
                  when=lambda o: _routed_to_dest(o.packet), props=("C20", "C10"), modifies=[]),
  ] + [RaiseClause(f"C10.protocol_exception.{e.__name__}", e, props=("C10", "C20"), modifies=[]) for e in PROTOCOL_EXC
       if e is not X.InvalidPduForSourceHandler],
  effects=set(), modular=True)


# ==============================================================================================
# C15: originating transaction id (messages to user of the put request)
# ==============================================================================================
from stubs.world import WORLD as _W  # noqa: E402


def _msgs(h):
    """(kind array, identity array, length) of the request's messages to user; kinds: 1 originating transaction id,
    2 proxy put response (see stubs/cfdp.py)"""
    l = val(val(h._put_req).msgs_to_user).items
    return l.a, l.b, l.n


def _has_kind(h, k, upto):
    a, b, n = _msgs(h)
    j = z3.Int(f"oi!j{k}")
    return z3.Exists([j], z3.And(0 <= j, j < upto, a[j] == k))


def _is_last_orig(h, tid, upto):
    """tid is the id carried by the last originating-id message before position `upto`"""
    a, b, n = _msgs(h)
    j, k = z3.Int("oi!last"), z3.Int("oi!k")
    return z3.Exists([j], z3.And(0 <= j, j < upto, a[j] == 1, z3.ForAll([k], z3.Implies(z3.And(j < k, k < upto), a[k] != 1)),
                                 tid.source_id.value == _W.orig_id_source(b[j]), tid.seq_num.value == _W.orig_id_seq(b[j])))


def _oi_inv(I, pre, env, idx, n):
    h = pre.self
    cpr, coi = I.truth(env.contains_proxy_put_response), I.truth(env.contains_originating_id)
    oid = env.originating_id
    return [
        ("put_response_seen", to_z3_bool(cpr) == _has_kind(h, 2, idx)),
        ("originating_id_seen", to_z3_bool(coi) == _has_kind(h, 1, idx)),
        ("last_originating_id", Implies_(coi, opt(oid, lambda t: _is_last_orig(h, t, idx), False))),
    ]


C("_check_for_originating_id", arg_types=SELF, props=("C15",), result=T.Opt(T.Obj(TransactionId)),
  requires=REQ_INV + [("has_request", lambda o: present(o.self._put_req))],
  modifies=[],
  ensures=[
      Clause("C15.originating_id_unless_put_response", lambda o, n, r: (
          (lambda q: (r is None) if (q is None) else (lambda a, b, ln: And_(
              iff(Not_(isnone(r)), And_(_has_kind(o.self, 1, ln), Not_(_has_kind(o.self, 2, ln)))),
              Implies_(Not_(isnone(r)), _is_last_orig(o.self, val(r), ln)) if val(r) is not None else True))(*_msgs(n.self)))
          (val(n.self._put_req).msgs_to_user)), ("C15",)),
      Clause("silent", lambda o, n, r: len([e for e in n.trace if e["kind"] != "loop_summary"]) == 0, ("C15",)),
  ],
  loops={0: LoopSpec(_oi_inv, modifies=[], props=("C15",),
                     local_types={"originating_id": T.Opt(T.Obj(TransactionId)), "contains_proxy_put_response": T.Bool,
                                  "contains_originating_id": T.Bool})},
  effects=set(), modular=True)


# ==============================================================================================
# transaction start (C07 header fields, C15 Transaction indication, C16 file access, C19 sequence number)
# ==============================================================================================
def _env_valid(o):
    """ASSUMED environment/configuration validity (finding F11 is outside the contracts): sequence number provider
    width 8/16/32 bit; max_packet_len leaves room for file data and fits the 16-bit PDU length field"""
    h = o.self
    rc = rcfg(h)
    w = h.seq_num_provider.max_bit_width
    return And_(Or_(w == 8, w == 16, w == 32), rc.max_packet_len >= 4 + 8 + 8 + 4 + 8 + 2 + 16, rc.max_packet_len <= 65535,
                opt(rc.max_file_segment_len, lambda m: m >= 1, True))


def _ts_ind_ok(o, n):
    es = inds(n, "transaction_indication")
    if len(es) != 1 or len(inds(n)) != 1:
        return False
    par = es[0]["args"][0]
    return And_(tid_eq(par.transaction_id, val(n.self._params.transaction_id)))


TS_MOD = ["self._params.fp.metadata_only", "self._params.fp.empty_file", "self._params.fp.file_size",
          "self._params.fp.segment_len", "self._params.pdu_conf.file_flag", "self._params.pdu_conf.seg_ctrl",
          "self._params.pdu_conf.source_entity_id", "self._params.pdu_conf.dest_entity_id", "self._params.pdu_conf.crc_flag",
          "self._params.pdu_conf.direction", "self._params.pdu_conf.transaction_seq_num", "self._params.transaction_id"]


def _started_conjuncts(h):
    """the invariant conjuncts that become relevant once the step leaves TRANSACTION_START"""
    p, fp = h._params, h._params.fp
    return And_(
        present(p.transaction_id), conf_wf(p.pdu_conf), fp.segment_len >= 1, fp.segment_len <= 65527, fp.progress == 0,
        opt(fp.file_size, lambda fs: fs >= 0, False),
        Implies_(B(fp.metadata_only), And_(opt(h._put_req, lambda r: isnone(r.source_file), True), Not_(B(fp.empty_file)),
                                           opt(fp.file_size, lambda fs: fs == 0, False))),
        Implies_(Not_(B(fp.metadata_only)), opt(h._put_req, lambda r: Not_(isnone(r.source_file)), True)),
        Implies_(B(fp.empty_file), opt(fp.file_size, lambda fs: fs == 0, False)))


C("_transaction_start", arg_types=SELF, props=("C07", "C15", "C16", "C19"), result=None,
  requires=REQ_INV + [("at_start", lambda o: And_(ne(o.self.states.state, IDLE), step_is(o.self, STEP.TRANSACTION_START))),
                      ("env", _env_valid)],
  modifies=TS_MOD,
  ensures=[
      Clause("C07.transaction_id_is_local_id_and_seq_num", lambda o, n, r: opt(n.self._params.transaction_id, lambda t: And_(
          Eq_(t.source_id.value, o.self.cfg.local_entity_id.value),
          Eq_(t.seq_num.value, n.self._params.pdu_conf.transaction_seq_num.value)), False), ("C07", "C19")),
      Clause("C19.one_sequence_number_per_transaction", lambda o, n, r: len(_seq_events(n)) == 1 and Eq_(
          n.self._params.pdu_conf.transaction_seq_num.value, _seq_events(n)[0]["value"]), ("C19",)),
      Clause("C15.transaction_indication", lambda o, n, r: _ts_ind_ok(o, n), ("C15",)),
      Clause("C07.file_size_is_filestore_size", lambda o, n, r: Implies_(Not_(B(n.self._params.fp.metadata_only)), opt(
          n.self._params.fp.file_size, lambda fs: Eq_(fs, fs_size(FS0, src_file(o.self).p)), False)), ("C07", "C16")),
      Clause("C07.ready_to_send", lambda o, n, r: _started_conjuncts(n.self), ("C07", "C10")),
      Clause("C07.header_fields", lambda o, n, r: (lambda c: And_(
          Eq_(c.source_entity_id.byte_len, c.dest_entity_id.byte_len), Eq_(c.source_entity_id.value, o.self.cfg.local_entity_id.value),
          Eq_(c.dest_entity_id.value, val(o.self._put_req).destination_id.value),
          Eq_(c.trans_mode, o.self._params.pdu_conf.trans_mode), eq(c.direction, Direction.TOWARDS_RECEIVER),
          iff(eq(c.crc_flag, CrcFlag.WITH_CRC), B(rcfg(o.self).crc_on_transmission))))(n.self._params.pdu_conf), ("C07",)),
      Clause("C16.only_filestore_queries", lambda o, n, r: all(e["op"] in ("file_exists", "file_size") for e in vfs_ops(n)) and And_(
          *[Eq_(e["path"], src_file(o.self)) for e in vfs_ops(n)]), ("C16",)),
      Clause("silent", lambda o, n, r: len(emitted(n)) == 0 and len(fault_cbs(n)) == 0, ("C07",)),
  ],
  raises=[RaiseClause("C19.source_file_vanished", X.SourceFileDoesNotExist, props=("C10", "C19"),
                      when=lambda o: opt(val(o.self._put_req).source_file, lambda f: Not_(fs_exists(FS0, f.p)), False),
                      iff=True, modifies=[])],
  effects={"vfs", "user", "seqnum"}, modular=True)


# ---------------------------------------------------------------------------------------------- file parameters
C("_prepare_file_params", arg_types=SELF, props=("C07", "C16", "C19"), result=None,
  requires=REQ_INV + [("at_start", lambda o: And_(ne(o.self.states.state, IDLE), step_is(o.self, STEP.TRANSACTION_START))),
                      ],
  modifies=["self._params.fp.metadata_only", "self._params.fp.empty_file", "self._params.fp.file_size"],
  ensures=[
      Clause("C07.file_kind_and_size", lambda o, n, r: (lambda fp, req: And_(
          iff(B(fp.metadata_only), isnone(req.source_file)),
          Implies_(Not_(B(fp.metadata_only)), opt(fp.file_size, lambda fs: And_(
              Eq_(fs, fs_size(FS0, src_file(o.self).p)), iff(B(fp.empty_file), fs == 0)), False)),
          Implies_(B(fp.metadata_only), And_(Not_(B(fp.empty_file)), opt(fp.file_size, lambda fs: fs == 0, False)))))(
          n.self._params.fp, val(o.self._put_req)), ("C07", "C16")),
      Clause("C16.only_filestore_queries", lambda o, n, r: all(e["op"] in ("file_exists", "file_size") for e in vfs_ops(n)) and And_(
          *[Eq_(e["path"], src_file(o.self)) for e in vfs_ops(n)]), ("C16",)),
      Clause("C07.size_non_negative", lambda o, n, r: opt(n.self._params.fp.file_size, lambda fs: fs >= 0, False), ("C07",)),
  ],
  raises=[RaiseClause("C19.source_file_vanished", X.SourceFileDoesNotExist, props=("C10", "C19"),
                      when=lambda o: opt(val(o.self._put_req).source_file, lambda f: Not_(fs_exists(FS0, f.p)), False),
                      iff=True, modifies=[])],
  effects={"vfs"}, modular=False)

# summaries used inside _transaction_start (each is verified on its own above)
for _c in CONTRACTS:
    if _c.fq.endswith("._transaction_start"):
        _c.contract_callees = {"SourceHandler._prepare_pdu_conf", "SourceHandler._calculate_max_file_seg_len",
                               "SourceHandler._get_next_transfer_seq_num", "SourceHandler._prepare_file_params",
                               "SourceHandler._check_for_originating_id"}
_GET_SEQ.emits = lambda o, n, r: [{"kind": "seqnum", "value": n.self._params.pdu_conf.transaction_seq_num.value}]


# ==============================================================================================
# the sender's state machine (C10: only protocol exceptions; C16: only filestore access; invariant inductive)
# ==============================================================================================
def _admitted(o):
    """what the admission check guarantees about an inserted packet (post of _check_inserted_packet)"""
    p = o.packet
    if p is None:
        return True
    h = o.self
    return And_(pdu_wf(p), eq(p.pdu_conf.direction, Direction.TOWARDS_SENDER),
                Eq_(p.pdu_conf.transaction_seq_num.value, h._params.pdu_conf.transaction_seq_num.value),
                p.cls in (FinishedPdu, NakPdu, AckPdu, KeepAlivePdu),
                Implies_(eq(mode(h), UNACK), p.cls not in (NakPdu, KeepAlivePdu)))


def _fsm_setup(interp, roots):
    roots["packet"] = interp.fresh_value(ADMITTED_PDU, "packet")


FSM_MOD = NOC_MOD + TS_MOD + ["self._params.positive_ack_params.ack_timer.expired", "self._params.ack_params.step_before_retransmission",
                              "self._params.check_timer.expired"]

FSM_CALLEES = {"SourceHandler._fsm_advancement_after_packets_were_sent", "SourceHandler._transaction_start",
               "SourceHandler._sending_file_data_fsm", "SourceHandler._handle_waiting_for_ack",
               "SourceHandler._handle_wait_for_finish", "SourceHandler._notice_of_completion",
               "SourceHandler._prepare_metadata_pdu"}


def _fsm_contract(step):
    c = C("_fsm_non_idle", instance=step.name, arg_types={**SELF, "packet": T.Opaque}, setup=_fsm_setup,
          props=("C10", "C16", "C02"), result=None,
          requires=REQ_INV + DEFAULT + REQ_TS_FRESH + [
              ("busy", lambda o: ne(o.self.states.state, IDLE)), ("admitted", _admitted),
              ("step", lambda o, step=step: step_is(o.self, step)),
              ("env_valid", lambda o: Implies_(present(o.self._params.remote_cfg), _env_valid(o)))],
          modifies=FSM_MOD,
          ensures=inv_clauses(("C10",)),
          raises=[
              RaiseClause("C10.unretrieved_truthful", X.UnretrievedPdusToBeSent, iff=True, when=lambda o: qlen(o.self) > 0,
                          props=("C10",), modifies=[]),
              RaiseClause("C10.source_file_vanished", X.SourceFileDoesNotExist, props=("C10",), modifies=["self.states.step"],
                          when=lambda o: step_is(o.self, STEP.IDLE, STEP.TRANSACTION_START),
                          post=lambda o, n: inv_formula(n.self)),
              RaiseClause("C10.invalid_nak", X.InvalidNakPdu, props=("C10", "C08"),
                          when=lambda o: o.packet is not None and o.packet.cls is NakPdu,
                          modifies=FSM_MOD,
                          post=lambda o, n: inv_formula(n.self)),
          ],
          effects={"vfs", "user", "timer", "fault_cb", "seqnum"}, modular=True)
    c.contract_callees = set(FSM_CALLEES)
    c.cost_hint = 4
    c.call_default = (step is STEP.IDLE)
    return c


for _st in STEP:
    _fsm_contract(_st)


# ---------------------------------------------------------------------------------------------- union summary
def _fsm_any():
    """summary of _fsm_non_idle for callers: the union of the per-step instances above (TransactionStep is finite and
    every member has an instance, so the union needs no separate proof)"""
    c = C("_fsm_non_idle", instance="ANY_STEP", arg_types={**SELF, "packet": T.Opaque}, props=(), result=None,
          requires=REQ_INV + DEFAULT + [
              ("busy", lambda o: ne(o.self.states.state, IDLE)), ("admitted", _admitted),
              ("env_valid", lambda o: Implies_(present(o.self._params.remote_cfg), _env_valid(o)))],
          modifies=FSM_MOD, ensures=inv_clauses(()),
          raises=[
              RaiseClause("C10.unretrieved_truthful", X.UnretrievedPdusToBeSent, iff=True, when=lambda o: qlen(o.self) > 0, modifies=[]),
              RaiseClause("C10.source_file_vanished", X.SourceFileDoesNotExist, modifies=["self.states.step"],
                          when=lambda o: step_is(o.self, STEP.IDLE, STEP.TRANSACTION_START), post=lambda o, n: inv_formula(n.self)),
              RaiseClause("C10.invalid_nak", X.InvalidNakPdu, when=lambda o: o.packet is not None and o.packet.cls is NakPdu,
                          modifies=FSM_MOD, post=lambda o, n: inv_formula(n.self)),
          ],
          effects={"vfs", "user", "timer", "fault_cb", "seqnum"}, modular=True, trusted=True,
          notes="union of the per-step instances of _fsm_non_idle")
    c.call_default = True
    return c


for _c in CONTRACTS:
    if _c.fq.endswith("._fsm_non_idle"):
        _c.call_default = False
_fsm_any()


def _sm_setup(interp, roots):
    roots["packet"] = interp.fresh_value(ANY_PDU, "packet")


def _sm_rejected(o):
    return o.packet is not None


ADMISSION_EXC = [X.InvalidPduDirection, X.InvalidSourceId, X.InvalidDestinationId, X.InvalidTransactionSeqNum,
                 X.InvalidPduForSourceHandler, X.PduIgnoredForSource, X.NoRemoteEntityCfgFound]

C("state_machine", arg_types={**SELF, "packet": T.Opaque}, setup=_sm_setup, props=("C10", "C16", "C11"), result=T.Opaque,
  requires=REQ_INV + DEFAULT + [("pdu_wf", lambda o: pdu_wf(o.packet)),
                                ("env_valid", lambda o: Implies_(present(o.self._params.remote_cfg), _env_valid(o)))],
  modifies=FSM_MOD,
  cond_frames=[("C10.idle_handler_does_nothing", lambda o: eq(o.self.states.state, IDLE), [], {"silent": True})],
  ensures=inv_clauses(("C10", "C11")) + [
      Clause("C10.returns_states", lambda o, n, r: r.cls is S.FsmResult and r.states.oid == o.self.states.oid, ("C10",)),
  ],
  raises=[RaiseClause(f"C10.rejected_pdu_changes_nothing.{e.__name__}", e, when=_sm_rejected, props=("C10",), modifies=[],
                      post=lambda o, n: len([e for e in n.trace if e["kind"] != "opaque_call"]) == 0) for e in ADMISSION_EXC] + [
      RaiseClause("C10.unretrieved_truthful", X.UnretrievedPdusToBeSent, iff=True,
                  when=lambda o: And_(ne(o.self.states.state, IDLE), qlen(o.self) > 0), props=("C10",), modifies=[]),
      RaiseClause("C10.source_file_vanished", X.SourceFileDoesNotExist, props=("C10",), modifies=["self.states.step"],
                  when=lambda o: step_is(o.self, STEP.IDLE, STEP.TRANSACTION_START), post=lambda o, n: inv_formula(n.self)),
      RaiseClause("C10.invalid_nak", X.InvalidNakPdu, props=("C10", "C08"),
                  when=lambda o: o.packet is not None and o.packet.cls is NakPdu,
                  modifies=FSM_MOD, post=lambda o, n: inv_formula(n.self)),
  ],
  effects={"vfs", "user", "timer", "fault_cb", "seqnum"}, modular=False)
CONTRACTS[-1].contract_callees = {"SourceHandler._check_inserted_packet", "SourceHandler._fsm_non_idle"}
CONTRACTS[-1].cost_hint = 6


C("get_next_packet", arg_types=SELF, props=("C10",), result=T.Opaque,
  requires=REQ_INV,
  modifies=QMOD,
  ensures=[
      Clause("C10.pops_one_or_none", lambda o, n, r: And_(
          Implies_(qlen(o.self) == 0, And_(r is None, qlen(n.self) == 0)) if True else True,
          Implies_(qlen(o.self) > 0, And_(r is not None, qlen(n.self) == qlen(o.self) - 1))), ("C10",)),
  ] + inv_clauses(("C10",)),
  effects=set(), modular=False)


def _timer_for_sending_entity(t):
    """the check timer was requested from the provider for the SENDING entity (the provider may use different periods per kind)"""
    from cfdppy.mib import EntityType
    return t.f.get("_for_entity") is EntityType.SENDING


def _fresh_params(n):
    p = n.self._params
    return And_(isnone(p.transaction_id), isnone(p.remote_cfg), isnone(p.check_timer), isnone(p.cond_code_eof),
                isnone(p.finished_params), p.fp.progress == 0, Not_(B(p.fp.metadata_only)), Not_(B(p.fp.empty_file)),
                opt(p.fp.file_size, lambda s: s == 0, False), isnone(p.positive_ack_params.ack_timer),
                p.positive_ack_params.ack_counter == 0, Not_(B(p.closure_requested)))


C("_reset_internal", arg_types={**SELF, "clear_packet_queue": T.Bool}, props=("C11",), result=None,
  requires=[], modifies=NOC_MOD,
  ensures=[
      # (C07 relies on it: the next transaction tiles its file from offset 0)
      Clause("C11.src.reset_restores_constructor_values", lambda o, n, r: And_(
          eq(n.self.states.state, IDLE), eq(n.self.states.step, STEP.IDLE), _fresh_params(n)), ("C11", "C07")),
      Clause("C11.src.queue_cleared_iff_asked", lambda o, n, r: And_(
          Implies_(B(o.clear_packet_queue), qlen(n.self) == 0),
          Implies_(Not_(B(o.clear_packet_queue)), qlen(n.self) == qlen(o.self))), ("C11",)),
      # F24 (repaired): the ready counter follows the queue (it used to keep its value when the queue was cleared)
      Clause("C11.src.ready_counter_follows_the_queue", lambda o, n, r: Implies_(
          to_z3_int(o.self.states._num_packets_ready) == qlen(o.self),
          to_z3_int(n.self.states._num_packets_ready) == qlen(n.self)), ("C11", "C10")),
  ],
  effects=set(), modular=False)

C("reset", arg_types=SELF, props=("C11", "C10"), result=None,
  requires=REQ_INV, modifies=NOC_MOD,
  ensures=[
      Clause("C11.src.public_reset_gives_a_fresh_idle_handler", lambda o, n, r: And_(
          eq(n.self.states.state, IDLE), eq(n.self.states.step, STEP.IDLE), _fresh_params(n), qlen(n.self) == 0,
          to_z3_int(n.self.states._num_packets_ready) == 0), ("C11", "C10")),
  ] + inv_clauses(("C11", "C10")),
  effects=set(), modular=False)


# the constructor establishes the invariant and the fresh state (base case of "for every history")
from cfdppy.mib import LocalEntityCfg as _LEC, RemoteEntityCfgTable as _RCT, CheckTimerProvider as _CTP  # noqa: E402
from cfdppy.user import CfdpUserBase as _UB  # noqa: E402

C("__init__", arg_types={**SELF, "cfg": T.Obj(_LEC), "user": T.Obj(_UB), "remote_cfg_table": T.Obj(_RCT),
                         "check_timer_provider": T.Obj(_CTP), "seq_num_provider": T.Opaque}, props=("C11", "C10"), result=None,
  requires=[("valid_local_cfg", lambda o: And_(table_inv(o.cfg.default_fault_handlers._handler_dict.d), ubf_inv(o.cfg.local_entity_id)))],
  modifies=["self.states", "self.cfg", "self.user", "self.remote_cfg_table", "self.seq_num_provider", "self.check_timer_provider",
            "self._params", "self._put_req", "self._pdus_to_be_sent"],
  ensures=[
      Clause("C11.src.constructor_gives_idle_fresh_handler", lambda o, n, r: And_(
          eq(n.self.states.state, IDLE), eq(n.self.states.step, STEP.IDLE), _fresh_params(n), isnone(n.self._put_req),
          qlen(n.self) == 0, to_z3_int(n.self.states._num_packets_ready) == 0), ("C11",)),
      Clause("C11.src.constructor_keeps_its_arguments", lambda o, n, r: (
          n.self.cfg.oid == o.cfg.oid and n.self.user.oid == o.user.oid and n.self.remote_cfg_table.oid == o.remote_cfg_table.oid
          and n.self.check_timer_provider.oid == o.check_timer_provider.oid), ("C11",)),
      Clause("C11.src.constructor_state_is_not_shared", lambda o, n, r: not any(
          isinstance(v, SObj) and (v is n.self._params or v is n.self.states or v is n.self._params.fp)
          for v in n.interp.shared_objs.values()), ("C11",)),
  ] + inv_clauses(("C11", "C10")),
  effects=set(), modular=False)
