"""Concrete scenario harness: drives the REAL SourceHandler / DestHandler of the current tree through their public API
(put_request, state_machine, get_next_packet, cancel_request) over a scripted link with a virtual clock, and checks the
property statements concretely on the observed run.

It is NOT part of the proof and a clean search proves nothing.  It exists to turn a failed obligation into a replayable
failing input (`./check replay <file>` re-runs one recorded case on whatever tree is current)."""
from __future__ import annotations

import copy
import os
import shutil
import tempfile
from datetime import timedelta
from pathlib import Path

PROTOCOL_EXC_MODULE = "cfdppy.exceptions"
TICK_MS = 1100   # every timer of the harness runs 1 s


def content(n, salt=0):
    return bytes(((i * 31 + 7 + salt * 13) ^ (i >> 3)) & 0xFF for i in range(n))


def _cc(x):
    from spacepackets.cfdp import ConditionCode
    return ConditionCode(x).name


def desc(p):
    n = type(p).__name__
    if n == "FileDataPdu":
        return ["FD", p.offset, len(p.file_data)]
    if n == "NakPdu":
        return ["NAK", p.start_of_scope, p.end_of_scope, [list(x) for x in p.segment_requests]]
    if n == "EofPdu":
        return ["EOF", _cc(p.condition_code), p.file_size, p.file_checksum.hex()]
    if n == "FinishedPdu":
        from spacepackets.cfdp.pdu.finished import DeliveryCode, FileStatus
        return ["FIN", _cc(p.condition_code), DeliveryCode(p.delivery_code).name, FileStatus(p.file_status).name]
    if n == "AckPdu":
        from spacepackets.cfdp.pdu import DirectiveType
        return ["ACK", DirectiveType(p.directive_code_of_acked_pdu).name, _cc(p.condition_code_of_acked_pdu)]
    if n == "MetadataPdu":
        from spacepackets.cfdp import ChecksumType
        return ["MD", p.file_size, p.source_file_name, p.dest_file_name, ChecksumType(p.checksum_type).name, bool(p.closure_requested)]
    return [n]


class Clock:
    def __init__(self):
        self.now = 1_000_000

    def install(self):
        import spacepackets.countdown as cd
        self._cd, self._old = cd, cd.time_ms
        cd.time_ms = lambda: self.now

    def uninstall(self):
        self._cd.time_ms = self._old


DEFAULT_CFG = {
    "mode": "ack", "closure": True, "crc": "CRC_32", "seg": 8, "maxpkt": 128, "limit": 2, "imm": True, "disp": False,
    "size": 20, "dest_is_dir": False, "dest_exists": False, "crc_flag": False, "put_mode": None, "put_closure": None,
    "ind": {}, "src_faults": {}, "dst_faults": {}, "transactions": 1,
}


class Run:
    """one scripted run; `script` is a list of events:
       ["drop", dir, k]      the k-th PDU sent in direction dir ("sd" source->dest, "ds") is lost
       ["dup", dir, k]       ... is delivered twice
       ["delay", dir, k, r]  ... is delivered r rounds later
       ["silent", dir, k]    every PDU from the k-th on in that direction is lost
       ["cancel_src", r] / ["cancel_dst", r]   cancel request issued at the start of round r
    """

    def __init__(self, cfg, script, workdir=None):
        self.cfg = {**DEFAULT_CFG, **cfg}
        self.script = [list(e) for e in script]
        self.workdir = workdir
        self.log = []          # per handler call
        self.viol = []         # (property, text)
        self.ind = []          # indications, in order
        self.faults = []       # fault callbacks

    # ------------------------------------------------------------------ set-up of the real objects
    def build(self):
        from spacepackets.cfdp import ChecksumType, TransmissionMode
        from spacepackets.countdown import Countdown
        from spacepackets.seqcount import SeqCountProvider
        from spacepackets.util import ByteFieldU16
        from spacepackets.cfdp import ConditionCode
        from cfdppy.filestore import NativeFilestore
        from cfdppy.handler.dest import DestHandler
        from cfdppy.handler.source import SourceHandler
        from cfdppy.mib import (CheckTimerProvider, DefaultFaultHandlerBase, IndicationCfg, LocalEntityCfg, RemoteEntityCfg,
                                RemoteEntityCfgTable)
        from cfdppy.mib import FaultHandlerCode
        from cfdppy.user import CfdpUserBase
        c = self.cfg
        run = self

        class RecFS(NativeFilestore):
            """the native filestore, recording which paths are mutated"""
            def __init__(self, who):
                super().__init__()
                self.who, self.calls = who, []

            def write_data(self, file, data, offset):
                self.calls.append(["write_data", str(file), offset, len(data)])
                return super().write_data(file, data, offset)

            def create_file(self, file):
                self.calls.append(["create_file", str(file)])
                return super().create_file(file)

            def truncate_file(self, file):
                self.calls.append(["truncate_file", str(file)])
                return super().truncate_file(file)

            def delete_file(self, file):
                self.calls.append(["delete_file", str(file)])
                return super().delete_file(file)

        class FH(DefaultFaultHandlerBase):
            def __init__(self, who, overrides):
                super().__init__()
                self.who = who
                for k, v in overrides.items():
                    self.set_handler(ConditionCode[k], FaultHandlerCode[v])

            def _cb(self, kind, t, cnd, p):
                run.faults.append([self.who, kind, cnd.name, p, run.clock_round()])

            def notice_of_suspension_cb(self, t, cnd, p):
                self._cb("suspend", t, cnd, p)

            def notice_of_cancellation_cb(self, t, cnd, p):
                self._cb("cancel", t, cnd, p)

            def abandoned_cb(self, t, cnd, p):
                self._cb("abandon", t, cnd, p)

            def ignore_cb(self, t, cnd, p):
                self._cb("ignore", t, cnd, p)

        class User(CfdpUserBase):
            def __init__(self, who, vfs):
                super().__init__(vfs)
                self.who = who

            def _i(self, *a):
                run.ind.append([self.who, *a, run.clock_round()])

            def transaction_indication(self, p):
                self._i("transaction", int(p.transaction_id.seq_num.value), None if p.originating_transaction_id is None else "orig")

            def eof_sent_indication(self, t):
                self._i("eof_sent", int(t.seq_num.value))

            def transaction_finished_indication(self, p):
                fp = p.finished_params
                self._i("finished", int(p.transaction_id.seq_num.value), fp.condition_code.name, fp.delivery_code.name, fp.file_status.name)
                run.on_finished(self.who, p)

            def metadata_recv_indication(self, p):
                self._i("metadata_recv", int(p.transaction_id.seq_num.value), p.file_size, p.source_file_name, p.dest_file_name)

            def file_segment_recv_indication(self, p):
                self._i("seg_recv", int(p.transaction_id.seq_num.value), p.offset, p.length)

            def report_indication(self, t, s):
                pass

            def suspended_indication(self, t, cnd):
                self._i("suspended")

            def resumed_indication(self, t, p):
                self._i("resumed")

            def fault_indication(self, t, cnd, p):
                self._i("fault", cnd.name, p)

            def abandoned_indication(self, t, cnd, p):
                self._i("abandoned", cnd.name, p)

            def eof_recv_indication(self, t):
                self._i("eof_recv", int(t.seq_num.value))

        class CTP(CheckTimerProvider):
            def provide_check_timer(self, local_entity_id, remote_entity_id, entity_type):
                return Countdown(timedelta(milliseconds=1000))

        mode = TransmissionMode.ACKNOWLEDGED if c["mode"] == "ack" else TransmissionMode.UNACKNOWLEDGED
        self.SRC_ID, self.DST_ID = ByteFieldU16(1), ByteFieldU16(2)

        def rc(eid):
            return RemoteEntityCfg(
                entity_id=eid, max_packet_len=c["maxpkt"], max_file_segment_len=c["seg"], closure_requested=c["closure"],
                crc_on_transmission=c["crc_flag"], default_transmission_mode=mode, crc_type=ChecksumType[c["crc"]],
                positive_ack_timer_interval_seconds=1.0, positive_ack_timer_expiration_limit=c["limit"], check_limit=c["limit"],
                immediate_nak_mode=c["imm"], nak_timer_interval_seconds=1.0, nak_timer_expiration_limit=c["limit"],
                disposition_on_cancellation=c["disp"])
        tbl = RemoteEntityCfgTable([rc(self.SRC_ID), rc(self.DST_ID)])
        icfg = IndicationCfg(**{k: bool(v) for k, v in c["ind"].items()})
        self.root = Path(tempfile.mkdtemp(prefix="sim", dir=self.workdir))
        (self.root / "s").mkdir()
        (self.root / "d").mkdir()
        self.sfs, self.dfs = RecFS("S"), RecFS("D")
        self.src = SourceHandler(LocalEntityCfg(self.SRC_ID, copy.copy(icfg), FH("S", c["src_faults"])), User("S", self.sfs), tbl, CTP(),
                                 SeqCountProvider(16))
        self.dst = DestHandler(LocalEntityCfg(self.DST_ID, copy.copy(icfg), FH("D", c["dst_faults"])), User("D", self.dfs), tbl, CTP())
        self.mode = mode

    # ------------------------------------------------------------------ helpers
    def clock_round(self):
        return self.round

    def protocol_exc(self, e):
        return type(e).__module__ == PROTOCOL_EXC_MODULE

    def on_finished(self, who, p):
        """C01: a success report of the receiver implies an identical file at that moment"""
        fp = p.finished_params
        if who == "D" and fp.condition_code.name == "NO_ERROR" and fp.delivery_code.name == "DATA_COMPLETE" \
                and fp.file_status.name == "FILE_RETAINED" and self.cur.get("size") is not None:
            have = self.cur["dest_path"].read_bytes() if self.cur["dest_path"].exists() else None
            if have != self.cur["data"] and (self.cfg["crc"] in ("CRC_32", "CRC_32C") or self.cfg["mode"] == "ack"):
                self.v("C01", f"receiver reports success but the destination file differs from the source "
                              f"({None if have is None else len(have)} bytes vs {len(self.cur['data'])})")

    def v(self, prop, text):
        self.viol.append([prop, f"transaction {self.tx_no}, round {self.round}: {text}"])

    def call(self, who, h, pdu):
        """one public state-machine call followed by draining the queue (the documented discipline)"""
        from cfdppy.exceptions import UnretrievedPdusToBeSent
        rec = {"who": who, "round": self.round, "in": None if pdu is None else desc(pdu), "out": [], "exc": None}
        queued_before = h.states.num_packets_ready if hasattr(h.states, "num_packets_ready") else 0
        rec["before"] = [h.states.state.name, h.states.step.name]
        if who == "D":
            # will a File Data PDU handed to this call be stored?  (the call first advances the step when the EOF ACK was retrieved)
            step = h.states.step.name
            acc = step in RECEIVING_STEPS
            if step == "SENDING_EOF_ACK_PDU":
                try:
                    ap = h._params.acked_params
                    acc = ap.lost_seg_tracker.num_lost_segments > 0 and not ap.metadata_missing
                except Exception:  # noqa: BLE001
                    acc = False
            rec["accepting"] = acc
        try:
            h.state_machine(pdu)
        except Exception as e:  # noqa: BLE001
            rec["exc"] = f"{type(e).__name__}: {e}"[:200]
            if not self.protocol_exc(e):
                self.v("C10", f"{who}.state_machine({rec['in']}) leaked {type(e).__name__}: {e}"[:300])
            elif isinstance(e, UnretrievedPdusToBeSent) and queued_before == 0:
                self.v("C10", f"{who}.state_machine raised UnretrievedPdusToBeSent although no PDU was queued at the call")
        out = []
        while True:
            try:
                p = h.get_next_packet()
            except Exception as e:  # noqa: BLE001
                self.v("C10", f"{who}.get_next_packet leaked {type(e).__name__}: {e}"[:300])
                break
            if p is None:
                break
            out.append(p.pdu)
        rec["out"] = [desc(p) for p in out]
        rec["state"] = [h.states.state.name, h.states.step.name]
        self.log.append(rec)
        return out, rec

    # ------------------------------------------------------------------ the run
    def execute(self):
        clock = Clock()
        clock.install()
        self.round, self.tx_no = 0, 0
        try:
            self.build()
            for t in range(self.cfg["transactions"]):
                self.tx_no = t
                self.one_transaction(clock, t)
        finally:
            clock.uninstall()
            shutil.rmtree(getattr(self, "root", ""), ignore_errors=True)
        return self.viol

    def one_transaction(self, clock, t):
        from spacepackets.cfdp import TransmissionMode
        from cfdppy.request import PutRequest
        from cfdppy import CfdpState
        c = self.cfg
        script = self.script if t == len(range(c["transactions"])) - 1 or c.get("script_every", True) else []
        size = c["size"]
        data = None if size is None else content(size, 0)
        sp = self.root / "s" / "src.bin"
        if c["dest_is_dir"]:
            dgiven = self.root / "d"
            dpath = dgiven / sp.name
        else:
            dgiven = dpath = self.root / "d" / "dest.bin"
        if data is not None:
            sp.write_bytes(data)
            if c["dest_exists"] and not dpath.exists() and t == 0:
                dpath.write_bytes(b"\xEE" * (size + 9))
        self.cur = {"size": size, "data": data, "dest_path": dpath, "src_path": sp, "crc_flag": c["crc_flag"]}
        listing_before = sorted(p.name for p in (self.root / "d").iterdir())
        pm = {None: None, "ack": TransmissionMode.ACKNOWLEDGED, "unack": TransmissionMode.UNACKNOWLEDGED}[c["put_mode"]]
        msgs = self.messages(c.get("msgs"))
        fsreq = None
        if c.get("fsreq"):
            from spacepackets.cfdp.tlv import FileStoreRequestTlv, MessageToUserTlv
            from spacepackets.cfdp.tlv.defs import FilestoreActionCode
            fsreq = [FileStoreRequestTlv(FilestoreActionCode.CREATE_FILE_SNM, "/tmp/newfile.txt")]
            msgs = (msgs or []) + [MessageToUserTlv(b"hello user")]
        req = PutRequest(self.DST_ID, None if data is None else sp, None if data is None else dgiven, pm, c["put_closure"],
                         msgs_to_user=msgs, fs_requests=fsreq)
        self.cur["msgs"] = c.get("msgs")
        if c.get("crc_flag_first_only"):
            # the remote configuration is switched between transactions (C11/C07: nothing may leak from the previous one)
            for eid in (self.SRC_ID, self.DST_ID):
                self.src.remote_cfg_table.get_cfg(eid).crc_on_transmission = (t == 0)
            self.cur["crc_flag"] = (t == 0)
        first_log = len(self.log)
        first_ind, first_fault = len(self.ind), len(self.faults)
        dcalls0 = len(self.dfs.calls)
        try:
            ok = self.src.put_request(req)
            if not ok:
                self.v("C19", "put request refused by an idle handler")
        except Exception as e:  # noqa: BLE001
            self.v("C10" if not self.protocol_exc(e) else "C19", f"put_request raised {type(e).__name__}: {e}"[:300])
            return
        sent = {"sd": 0, "ds": 0}
        inflight = {"sd": [], "ds": []}    # [deliver_round, pdu]
        silent = {}
        base_round = self.round
        ev = [e for e in script]
        idle_rounds = 0
        src_done = dst_done = dst_was_busy = False
        sd_stream, ds_stream = [], []
        self.delivered_to_dst, self.delivered_to_src = [], []

        def transmit(d, pdus):
            for p in pdus:
                k = sent[d]
                sent[d] += 1
                (sd_stream if d == "sd" else ds_stream).append([self.round, p])
                if d in silent and k >= silent[d]:
                    continue
                acts = [e for e in ev if e[0] in ("drop", "dup", "delay") and e[1] == d and e[2] == k]
                if any(a[0] == "drop" for a in acts):
                    continue
                delay = max([a[3] for a in acts if a[0] == "delay"], default=0)
                inflight[d].append([self.round + 1 + delay, p])
                if any(a[0] == "dup" for a in acts):
                    inflight[d].append([self.round + 1 + delay, p])

        for e in ev:
            if e[0] == "silent":
                silent[e[1]] = e[2]
        max_rounds = 60 + 12 * c["limit"] + (0 if size is None else 3 * (size // max(1, min(c["seg"], 8)) + 2))
        while self.round - base_round < max_rounds:
            rel = self.round - base_round
            activity = False
            for e in ev:
                if e[0] == "cancel_src" and e[1] == rel:
                    transmit("sd", self.do_cancel("S", self.src))
                    activity = True
                if e[0] == "cancel_dst" and e[1] == rel:
                    transmit("ds", self.do_cancel("D", self.dst))
                    activity = True
                if e[0] == "put_again" and e[1] == rel:
                    self.do_put_again(req)
                if e[0] in ("stray_dst", "stray_src", "keepalive_src", "finished_src") and e[1] == rel:
                    out = self.do_stray(e[0])
                    transmit("sd" if e[0] != "stray_dst" else "ds", out)
            # deliveries to the source (one PDU per call), then a call without PDU
            due = [x for x in inflight["ds"] if x[0] <= self.round]
            inflight["ds"] = [x for x in inflight["ds"] if x[0] > self.round]
            for _, p in due:
                if src_done:
                    continue
                self.delivered_to_src.append([self.round, p])
                out, _ = self.call("S", self.src, self.reparse(p))
                transmit("sd", out)
                activity = True
            out, _ = self.call("S", self.src, None)
            if out:
                activity = True
            transmit("sd", out)
            due = [x for x in inflight["sd"] if x[0] <= self.round]
            inflight["sd"] = [x for x in inflight["sd"] if x[0] > self.round]
            for _, p in due:
                if dst_done:
                    continue   # (a finished entity recognises PDUs of its old transaction; no ghost transaction is started)
                self.delivered_to_dst.append([self.round, p])
                out, rec = self.call("D", self.dst, self.reparse(p))
                rec["delivered"] = True
                transmit("ds", out)
                activity = True
                self.check_dest_file("after " + str(rec["in"]))
            out, _ = self.call("D", self.dst, None)
            if out:
                activity = True
            transmit("ds", out)
            src_done = src_done or self.src.states.state == CfdpState.IDLE
            if self.dst.states.state != CfdpState.IDLE:
                dst_was_busy = True
            dst_done = dst_done or (dst_was_busy and self.dst.states.state == CfdpState.IDLE)
            both_idle = self.src.states.state == CfdpState.IDLE and self.dst.states.state == CfdpState.IDLE
            if both_idle and not inflight["sd"] and not inflight["ds"]:
                break
            self.round += 1
            if not activity and not inflight["sd"] and not inflight["ds"]:
                clock.now += TICK_MS
                self.log.append({"who": "clock", "round": self.round, "advance_ms": TICK_MS})
                idle_rounds += 1
            else:
                idle_rounds = 0
        self.cur.update({"sd": sd_stream, "ds": ds_stream, "first_log": first_log, "first_ind": first_ind, "first_fault": first_fault,
                         "listing_before": listing_before, "dcalls0": dcalls0, "script": ev})
        self.post_checks(t)
        # make sure the next transaction starts from idle handlers (a stuck handler is reported by post_checks)
        for h in (self.src, self.dst):
            if h.states.state != CfdpState.IDLE:
                try:
                    h.reset()
                except Exception:  # noqa: BLE001
                    pass
        self.round += 1

    def reparse(self, p):
        """the receiver gets its own PDU object (a deep copy: the handlers mutate header configurations in place).  The PDU is NOT
        sent through spacepackets' parser: EofPdu.unpack of the installed spacepackets leaves the condition code unshifted
        (data & 0xF0), which is a defect of the dependency, outside the properties' "well-formed PDU" premise."""
        return copy.deepcopy(p)

    def messages(self, kind):
        if not kind:
            return None
        from spacepackets.cfdp import ConditionCode, TransactionId
        from spacepackets.cfdp.pdu import DeliveryCode, FileStatus
        from spacepackets.cfdp.pdu.finished import FinishedParams
        from spacepackets.cfdp.tlv import OriginatingTransactionId, ProxyPutResponse, ProxyPutResponseParams
        from spacepackets.util import ByteFieldU16
        orig = OriginatingTransactionId(TransactionId(ByteFieldU16(9), ByteFieldU16(33))).to_generic_msg_to_user_tlv()
        resp = ProxyPutResponse(ProxyPutResponseParams.from_finished_params(FinishedParams(
            delivery_code=DeliveryCode.DATA_COMPLETE, condition_code=ConditionCode.NO_ERROR,
            file_status=FileStatus.FILE_RETAINED))).to_generic_msg_to_user_tlv()
        return {"orig_then_put_response": [orig, resp], "put_response_then_orig": [resp, orig], "orig_only": [orig]}[kind]

    def do_put_again(self, req):
        """C19: a busy handler refuses a second put request"""
        busy = self.src.states.state.name != "IDLE"
        if not busy:
            return   # (an idle handler may accept it: a different scenario)
        rec = {"who": "S", "round": self.round, "in": ["put_request"], "out": [], "exc": None, "event": True}
        try:
            r = self.src.put_request(copy.copy(req))
            rec["result"] = bool(r)
            if busy and r:
                self.v("C19", "a busy source handler accepted a second put request")
        except Exception as e:  # noqa: BLE001
            rec["exc"] = f"{type(e).__name__}"
            if busy:
                self.v("C19" if self.protocol_exc(e) else "C10", f"put_request on a busy handler raised {type(e).__name__}: {e}"[:200])
        self.log.append(rec)

    def do_stray(self, kind):
        """a PDU that the handler has to refuse (unknown entity / other transaction) or may ignore (Keep Alive, early Finished)"""
        from spacepackets.cfdp import ConditionCode, PduConfig
        from spacepackets.cfdp.pdu import AckPdu, DirectiveType, FileDataPdu, FinishedPdu, KeepAlivePdu, TransactionStatus
        from spacepackets.cfdp.pdu.file_data import FileDataParams
        from spacepackets.cfdp.pdu.finished import DeliveryCode, FileStatus, FinishedParams
        from spacepackets.util import ByteFieldU16
        if kind == "stray_dst":
            conf = PduConfig(ByteFieldU16(77), self.DST_ID, ByteFieldU16(5), self.mode)
            out, rec = self.call("D", self.dst, FileDataPdu(conf, FileDataParams(b"stray", 3)))
            rec["event"] = True
            if not rec["exc"]:
                self.v("C10", "a File Data PDU from an unknown entity was not refused by the destination handler")
            return out
        seq = self.src.transaction_seq_num if self.src.states.state.name != "IDLE" else ByteFieldU16(0)
        conf = PduConfig(self.SRC_ID, self.DST_ID, ByteFieldU16(int(seq.value)), self.mode)
        if kind == "stray_src":
            conf = PduConfig(self.SRC_ID, self.DST_ID, ByteFieldU16(int(seq.value) + 7), self.mode)
            pdu = AckPdu(conf, DirectiveType.EOF_PDU, ConditionCode.NO_ERROR, TransactionStatus.ACTIVE)
        elif kind == "keepalive_src":
            pdu = KeepAlivePdu(conf, 0)
        else:
            pdu = FinishedPdu(conf, FinishedParams(ConditionCode.NO_ERROR, DeliveryCode.DATA_COMPLETE, FileStatus.FILE_RETAINED))
        out, rec = self.call("S", self.src, pdu)
        rec["event"] = True
        if kind == "stray_src" and not rec["exc"] and self.src.states.state.name != "IDLE":
            self.v("C10", "an ACK PDU of another transaction was not refused by the source handler")
        return out

    def do_cancel(self, who, h):
        tid = h._params.transaction_id
        busy = h.states.state.name != "IDLE"
        rec = {"who": who, "round": self.round, "in": ["cancel_request"], "out": [], "exc": None}
        if tid is None:
            return []
        try:
            r = h.cancel_request(tid)
            rec["result"] = bool(r)
            if bool(r) != busy:
                self.v("C12", f"{who}.cancel_request returned {r} for the {'active' if busy else 'inactive'} transaction")
        except Exception as e:  # noqa: BLE001
            rec["exc"] = f"{type(e).__name__}: {e}"[:200]
            if not self.protocol_exc(e):
                self.v("C10", f"{who}.cancel_request leaked {type(e).__name__}: {e}"[:300])
        # the documented discipline: PDUs queued by the request are retrieved before the next state-machine call
        out = []
        while True:
            p = h.get_next_packet()
            if p is None:
                break
            out.append(p.pdu)
        rec["out"] = [desc(p) for p in out]
        rec["state"] = [h.states.state.name, h.states.step.name]
        rec["before"] = rec["state"]
        self.log.append(rec)
        self.cur.setdefault("cancels", []).append([who, self.round, len(self.log)])
        return out

    # ------------------------------------------------------------------ concrete property monitors
    def check_dest_file(self, when):
        """C05: the destination file equals the write-model of the accepted File Data PDUs"""
        if self.cur["size"] is None:
            return
        model = self.cur.get("model")
        md_seen = any(p.__class__.__name__ == "MetadataPdu" for _, p in self.delivered_to_dst)
        if not md_seen:
            return
        if model is None:
            model = bytearray()
        # recompute from scratch: accepted = File Data PDUs delivered after the Metadata PDU for which the user got seg_recv / no refusal
        model = bytearray()
        started = False
        for rnd, p in self.delivered_to_dst:
            n = type(p).__name__
            if n == "MetadataPdu" and not started:
                started = True
                continue
            if n == "FileDataPdu" and started and self.accepted(rnd, p):
                end = p.offset + len(p.file_data)
                if len(model) < end:
                    model.extend(b"\0" * (end - len(model)))
                model[p.offset:end] = p.file_data
        dp = self.cur["dest_path"]
        deleted = any(cc[0] == "delete_file" for cc in self.dfs.calls[self.cur.get("dcalls0", 0):])
        if deleted:
            return
        have = dp.read_bytes() if dp.exists() else None
        if have is None:
            self.v("C05", f"{when}: destination file does not exist although the Metadata PDU was processed")
        elif have != bytes(model):
            diff = next((i for i in range(min(len(have), len(model))) if have[i] != model[i]), min(len(have), len(model)))
            self.v("C05", f"{when}: destination file ({len(have)} bytes) differs from the write-model ({len(model)} bytes) at offset {diff}")

    def accepted(self, rnd, p):
        """a File Data PDU counts as accepted if the call that handled it did not raise"""
        d = desc(p)
        for r in self.log:
            if r.get("who") == "D" and r.get("round") == rnd and r.get("in") == d and r.get("delivered"):
                return fd_accepted(r)
        return True

    def post_checks(self, t):
        from contracts import sim_checks
        sim_checks.run_all(self, t)


RECEIVING_STEPS = ("RECEIVING_FILE_DATA", "RECV_FILE_DATA_WITH_CHECK_LIMIT_HANDLING", "WAITING_FOR_MISSING_DATA")


def fd_accepted(rec):
    """a delivered File Data PDU is accepted if the handler was in a step that stores file data and the call did not raise"""
    return bool(rec.get("accepting")) and not rec.get("exc")


def run_case(case, workdir=None):
    r = Run(case.get("cfg", {}), case.get("script", []), workdir=workdir or os.environ.get("PYVC_WORK"))
    viol = r.execute()
    return r, viol
