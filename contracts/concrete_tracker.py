"""Concrete oracle of the C18 contracts: the same clauses as contracts/tracker.py, evaluated on the real
LostSegmentTracker over a small scope (offsets 0..N).  Used only to turn a failed obligation into a
replayable failing input; a pass of this search proves nothing and is never counted."""
from __future__ import annotations

import itertools

N = 7
P = "cfdppy.handler.dest.LostSegmentTracker."


def states(n=N):
    """all well-formed trackers over [0, n): ascending, disjoint, non-empty ranges (adjacent allowed)"""
    out = []

    def rec(start, acc):
        out.append(list(acc))
        for a in range(start, n):
            for b in range(a + 1, n + 1):
                rec(b, acc + [(a, b)])
    rec(0, [])
    return out


def view(d):
    s = set()
    for k, v in d.items():
        s |= set(range(k, v))
    return s


def wf(d):
    items = list(d.items())
    return (all(0 <= k < v for k, v in items) and all(items[i][1] <= items[i + 1][0] for i in range(len(items) - 1))
            and [k for k, _ in items] == sorted(d))


def mk(pairs):
    from cfdppy.handler.dest import LostSegmentTracker
    t = LostSegmentTracker()
    t.lost_segments = dict(pairs)
    return t


class TrackerOracle:
    scope = f"all well-formed trackers and ranges over offsets 0..{N} (exhaustive), ordered by size"

    def __init__(self, op):
        self.op = op

    def cases(self):
        sts = sorted(states(), key=lambda s: (len(s), s))
        if self.op in ("reset", "coalesce_lost_segments", "num_lost_segments"):
            for s in sts:
                yield {"op": self.op, "state": s}
        else:
            for s in sts:
                for a in range(N + 1):
                    for b in range(a, N + 2):
                        yield {"op": self.op, "state": s, "arg": [a, b]}

    def search(self, model, budget_s, obligation=None):
        import time
        t0 = time.time()
        for c in self.cases():
            ok, _ = self.run(c)
            if not ok:
                return c
            if time.time() - t0 > budget_s:
                return None
        return None

    def run(self, case):
        op = case["op"]
        st = [tuple(p) for p in case["state"]]
        t = mk(st)
        before = dict(t.lost_segments)
        v0 = view(before)
        try:
            if op == "reset":
                t.reset()
                ok = t.lost_segments == {}
                return ok, f"after reset: {t.lost_segments}"
            if op == "num_lost_segments":
                r = t.num_lost_segments
                return r == len(before), f"num_lost_segments={r} for {before}"
            if op == "coalesce_lost_segments":
                t.coalesce_lost_segments()
                d = t.lost_segments
                items = list(d.items())
                no_adj = all(items[i][1] < items[i + 1][0] for i in range(len(items) - 1))
                ok = view(d) == v0 and wf(d) and (len(before) <= 1 or no_adj)
                return ok, f"coalesce {before} -> {d}"
            a, b = case["arg"]
            if op == "add_lost_segment":
                if not (0 <= a < b) or (set(range(a, b)) & v0):
                    return True, "outside precondition"
                t.add_lost_segment((a, b))
                d = t.lost_segments
                ok = view(d) == v0 | set(range(a, b)) and wf(d)
                return ok, f"add ({a},{b}) to {before} -> {d}"
            if op == "remove_lost_segment":
                within_one = any(k <= a and b <= v for k, v in before.items())
                touches_none = not (set(range(a, b)) & v0)
                straddles = any(k <= a < v < b for k, v in before.items())
                try:
                    r = t.remove_lost_segment((a, b))
                except ValueError:
                    ok = straddles and t.lost_segments == before
                    return ok, f"remove ({a},{b}) from {before} raised ValueError, state now {t.lost_segments}"
                d = t.lost_segments
                if straddles:
                    return False, f"remove ({a},{b}) from {before}: straddling removal not refused -> {d}"
                if a == b or within_one or touches_none:
                    ok = view(d) == v0 - set(range(a, b)) and wf(d) and r == bool(set(range(a, b)) & v0)
                    return ok, f"remove ({a},{b}) from {before} -> {d}, returned {r}"
                return True, "outside precondition"
        except Exception as e:  # any other exception is a failure of the contract
            return False, f"{op} on {before} raised {type(e).__name__}: {e}"
        return True, "?"


ORACLES = {P + op: TrackerOracle(op) for op in
           ["reset", "num_lost_segments", "add_lost_segment", "remove_lost_segment", "coalesce_lost_segments"]}
